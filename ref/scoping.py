"""Reference model of pdpy11's documented symbol scoping (independent of the compiler).

A *layout* is a list of top-level files; a file is a list of items:

  ("def", name, var, "="|"==")   constant definition, value = variable `var`; "==" exports it
  ("lab", name, ":"|"::")        ordinary label at the current address; "::" exports it
  ("use", name)                  `.word name`          (2 bytes)
  ("ext", name)                  `.extern name` (name may be "all")
  ("loc", n)                     local label  `n$:`
  ("useloc", n)                  `.word n$`            (2 bytes)
  ("inc", k)                     `.include` of auxiliary file #k of layout["aux"]

Rules: a local label is visible between the nearest enclosing ordinary labels of its own file
instance; an ordinary symbol is private to its file instance unless exported; a file's own
definition takes precedence over an exported one; a reference to an invisible name is an
error (undefined-symbol); a second definition of a visible name -- twice in one file
instance, or exported by two instances -- is an error (duplicate-symbol).
"""


class Instance:
    def __init__(self, fid):
        self.fid = fid
        self.defs = {}        # name -> ("const", var) | ("addr", offset)
        self.exports = set()  # names exported by this instance
        self.extern_all = False
        self.dups = []


def resolve(layout):
    """-> dict(errors=set(), words=[(byte offset, ("const", var) | ("addr", offset)) ...], length)"""
    files, aux = layout["files"], layout.get("aux", [])
    instances = []
    uses = []  # (offset, kind, name, instance, region)
    off = [0]
    region_ctr = [0]
    errors = set()

    def walk(items, fid):
        inst = Instance(fid)
        instances.append(inst)
        region_ctr[0] += 1
        region = region_ctr[0]
        locs = {}
        inst.locs = locs
        for it in items:
            k = it[0]
            if k == "def" or k == "lab":
                name = it[1]
                if name.lower() in (n.lower() for n in inst.defs):
                    errors.add("duplicate-symbol")
                else:
                    inst.defs[name] = ("const", it[2]) if k == "def" else ("addr", off[0])
                    exported = (it[3] == "==") if k == "def" else (it[2] == "::")
                    if exported or inst.extern_all:
                        inst.exports.add(name)
                if k == "lab":
                    region_ctr[0] += 1
                    region = region_ctr[0]
            elif k == "ext":
                if it[1].lower() == "all":
                    inst.extern_all = True
                    inst.exports.update(inst.defs)
                else:
                    inst.exports.add(it[1])
            elif k == "loc":
                key = (region, it[1])
                if key in locs:
                    errors.add("duplicate-symbol")
                locs[key] = off[0]
            elif k == "use":
                uses.append((off[0], "sym", it[1], inst, region))
                off[0] += 2
            elif k == "useloc":
                uses.append((off[0], "loc", it[1], inst, region))
                off[0] += 2
            elif k == "inc":
                walk(aux[it[1]], f"aux{it[1]}")
        return inst

    for i, f in enumerate(files):
        walk(f, f"file{i}")

    # exported names: an exported name without a definition in its instance exports nothing usable
    exporters = {}
    for inst in instances:
        for n in inst.exports:
            exporters.setdefault(n.lower(), []).append(inst)
    for n, lst in exporters.items():
        if len(lst) > 1:
            errors.add("duplicate-symbol")

    words = []
    for o, kind, name, inst, region in uses:
        if kind == "loc":
            key = (region, name)
            if key in inst.locs:
                words.append((o, ("addr", inst.locs[key])))
            else:
                errors.add("undefined-symbol")
            continue
        own = [v for k, v in inst.defs.items() if k.lower() == name.lower()]
        if own:
            words.append((o, own[0]))
            continue
        ex = [i for i in exporters.get(name.lower(), [])]
        target = None
        for i in ex:
            d = [v for k, v in i.defs.items() if k.lower() == name.lower()]
            if d:
                target = d[0]
        if target is None:
            errors.add("undefined-symbol")
        else:
            words.append((o, target))
    return {"errors": errors, "words": words, "length": off[0]}


def render_items(items, aux_names):
    lines = []
    for it in items:
        k = it[0]
        if k == "def":
            lines.append(f"{it[1]} {it[3]} {{{it[2]}}}")
        elif k == "lab":
            lines.append(f"{it[1]}{it[2]}")
        elif k == "use":
            lines.append(f".word {it[1]}")
        elif k == "ext":
            lines.append(f".extern {it[1]}")
        elif k == "loc":
            lines.append(f"{it[1]}$:")
        elif k == "useloc":
            lines.append(f".word {it[1]}$")
        elif k == "inc":
            lines.append(f'.include "{aux_names[it[1]]}"')
    return "\n".join(lines) + "\n"
