"""Independent BK-0010 tape reader (no pdpy11 import).

Normal-speed format (BK-0010 monitor, EMT 36): a long pilot of short pulses, a sync marker
(one long pulse followed by one data-length pulse), then for every bit a *data* period
(short = 0, long = 1, long being twice the short one) followed by a short *sync* period;
bytes are sent least-significant bit first.  Block layout: header = load address (LE word),
length (LE word), 16-byte name; short pilot + marker; body; 16-bit checksum (sum of body
bytes with end-around carry); trailer.

"Turbo" format: each bit is a single period whose high part is long for 1 and short for 0.

A sample is 'high' if it is >= 128.
"""
import struct


def runs(samples):
    """[(level, length), ...] of consecutive high/low runs."""
    out = []
    for s in samples:
        lv = 1 if s >= 128 else 0
        if out and out[-1][0] == lv:
            out[-1][1] += 1
        else:
            out.append([lv, 1])
    return [(a, b) for a, b in out]


def periods(samples):
    """[(high_len, low_len), ...]; the signal must start high."""
    r = runs(samples)
    if not r:
        return []
    assert r[0][0] == 1, "signal must start with a high half-period"
    out = []
    for i in range(0, len(r) - 1, 2):
        assert r[i][0] == 1 and r[i + 1][0] == 0
        out.append((r[i][1], r[i + 1][1]))
    assert len(r) % 2 == 0, "dangling half period"
    return out


def demod_normal_bits(samples):
    """Bits of a data section (no pilot): alternating sync period (short) and data period."""
    ps = periods(samples)
    assert len(ps) % 2 == 0, "odd number of periods in a data section"
    unit = ps[0][0]  # the sync period defines the short length
    bits = []
    for i in range(0, len(ps), 2):
        sync, data = ps[i], ps[i + 1]
        assert sync == (unit, unit), ("bad sync period", sync)
        if data == (unit, unit):
            bits.append(0)
        elif data == (2 * unit, 2 * unit):
            bits.append(1)
        else:
            raise AssertionError(("bad data period", data))
    return bits


def demod_turbo_bits(samples):
    ps = periods(samples)
    bits = []
    for hi, lo in ps:
        assert lo == 2, ("bad turbo low part", lo)
        if hi == 1:
            bits.append(0)
        elif hi == 3:
            bits.append(1)
        else:
            raise AssertionError(("bad turbo high part", hi))
    return bits


def bits_to_bytes(bits):
    assert len(bits) % 8 == 0
    out = []
    for i in range(0, len(bits), 8):
        v = 0
        for j in range(8):
            v += bits[i + j] << j  # least significant bit first
        out.append(v)
    return bytes(out)


def eac16(data):
    """16-bit sum with end-around carry (what ADD followed by ADC computes), step by step."""
    s = 0
    for b in data:
        s += b
        if s > 0xFFFF:
            s = (s & 0xFFFF) + 1
    return s


def eac16_closed(total):
    """Closed form on the plain sum (lemma checked by z3 and cvc5 in ref/selfcheck.py)."""
    return 0 if total == 0 else (total - 1) % 65535 + 1


def parse_riff(blob):
    """-> dict(fields) of a canonical 44-byte-header PCM WAV; raises AssertionError if malformed."""
    assert blob[0:4] == b"RIFF" and blob[8:12] == b"WAVE" and blob[12:16] == b"fmt "
    riff_size, = struct.unpack("<I", blob[4:8])
    fmt_size, fmt, channels, rate, byte_rate, align, bits = struct.unpack("<IHHIIHH", blob[16:36])
    assert blob[36:40] == b"data"
    data_size, = struct.unpack("<I", blob[40:44])
    data = blob[44:]
    assert fmt_size == 16 and fmt == 1
    assert riff_size == len(blob) - 8, (riff_size, len(blob))
    assert data_size == len(data)
    assert byte_rate == rate * channels * bits // 8 and align == channels * bits // 8
    return {"channels": channels, "rate": rate, "bits": bits, "data": data}


def read_tape(blob, turbo=False):
    """Full demodulation of a pdpy11-style WAV: -> (base, length, name, body, checksum)."""
    w = parse_riff(blob)
    assert w["channels"] == 1 and w["bits"] == 8
    s = w["data"]
    if not turbo:
        ps = periods(s)
        # pilot: short periods; marker: a long period (>= 3x) followed by a data-length period
        unit = ps[0][0]
        i = 0
        while ps[i] == (unit, unit):
            i += 1
        assert i >= 1000, ("pilot too short", i)
        assert ps[i][0] >= 3 * unit, ("no sync marker", ps[i])
        i += 1
        assert ps[i] == (2 * unit, 2 * unit)
        i += 1
        # short second pilot + marker
        j = i
        while ps[j] == (unit, unit):
            j += 1
        assert j - i >= 4
        assert ps[j][0] >= 3 * unit
        j += 1
        assert ps[j] == (2 * unit, 2 * unit)
        j += 1

        def take_bytes(k, n):
            bits = []
            for _ in range(8 * n):
                assert ps[k] == (unit, unit), ("sync", ps[k])
                d = ps[k + 1]
                assert d in ((unit, unit), (2 * unit, 2 * unit)), d
                bits.append(0 if d == (unit, unit) else 1)
                k += 2
            return bits_to_bytes(bits), k

        hdr, k = take_bytes(j, 20)
        base, length = struct.unpack("<HH", hdr[:4])
        name = hdr[4:20]
        # pause: short pilot + marker
        m = k
        while ps[m] == (unit, unit):
            m += 1
        assert ps[m][0] >= 3 * unit
        m += 1
        assert ps[m] == (2 * unit, 2 * unit)
        m += 1
        body, k = take_bytes(m, length)
        cs, k = take_bytes(k, 2)
        checksum, = struct.unpack("<H", cs)
        rest = ps[k:]
        assert all(p == (unit, unit) for p in rest) and len(rest) >= 100, "trailer"
        return base, length, name, body, checksum
    raise NotImplementedError("turbo full-tape reader: use demod_turbo_bits on sections")
