"""Oracle self-check lemmas, discharged by two solvers (z3 and cvc5 binaries on PATH)."""
import os
import shutil
import subprocess
import tempfile

EAC_LEMMA = """
(set-logic QF_NIA)
(declare-const s Int)
(declare-const b Int)
(assert (and (>= s 0) (<= s 65535) (>= b 0) (<= b 255)))
(define-fun t () Int (+ s b))
(define-fun s2 () Int (ite (> t 65535) (- t 65535) t))
; negated: the end-around-carry step keeps the sum modulo 65535, stays in 16 bits and only yields 0 from 0+0
(assert (not (and (= (mod s2 65535) (mod (+ s b) 65535))
                  (>= s2 0) (<= s2 65535)
                  (=> (= s2 0) (= (+ s b) 0)))))
(check-sat)
"""

# the closed form used by ref.bk_tape.eac16: fold(sum) where fold(x) = x if x==0 else ((x-1) mod 65535)+1
FOLD_LEMMA = """
(set-logic QF_NIA)
(declare-const acc Int)
(declare-const total Int)
(declare-const b Int)
(define-fun fold ((x Int)) Int (ite (= x 0) 0 (+ (mod (- x 1) 65535) 1)))
(assert (and (>= total 0) (>= b 0) (<= b 255) (= acc (fold total))))
(define-fun t () Int (+ acc b))
(define-fun acc2 () Int (ite (> t 65535) (- t 65535) t))
(assert (not (= acc2 (fold (+ total b)))))
(check-sat)
"""


def _run(solver_cmd, text):
    with tempfile.NamedTemporaryFile("w", suffix=".smt2", delete=False) as f:
        f.write(text)
        path = f.name
    try:
        p = subprocess.run(solver_cmd + [path], capture_output=True, text=True, timeout=120)
        out = (p.stdout + p.stderr).strip()
    finally:
        os.unlink(path)
    if "(error" in out:
        return "error: " + out[:200]
    return out.split()[0] if out else "no-output"


def run_all():
    res = {}
    for name, text in (("eac_step", EAC_LEMMA), ("eac_fold_closed_form", FOLD_LEMMA)):
        for solver, cmd in (("z3", ["z3"]), ("cvc5", ["cvc5"])):
            if shutil.which(cmd[0]) is None:
                res[f"{name}/{solver}"] = "missing"
                continue
            r = _run(cmd, text)
            res[f"{name}/{solver}"] = r
    bad = {k: v for k, v in res.items() if v != "unsat"}
    # at least one solver must prove each lemma, and none may refute it
    for name in ("eac_step", "eac_fold_closed_form"):
        rs = [v for k, v in res.items() if k.startswith(name + "/")]
        assert "sat" not in rs, res
        assert "unsat" in rs, res
    return res
