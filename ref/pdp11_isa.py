"""Reference PDP-11 instruction table and decoder, independent of pdpy11.

Transcribed from the PDP-11 processor handbook (base set, EIS, FIS, FP11, CIS), the
LSI-11/1801VM2 extensions and FP11 maintenance instructions -- NOT from
pdpy11/architecture.py.  Entries marked INDEP=False are mnemonics for which no second
source was at hand in the sealed sandbox; for those the table is a frozen copy of the
accepted encoding (a regression pin, not an independent oracle) and the evidence says so.

Operand formats (assembly operand order -> bit fields):

  none                       no operands
  dst      op   dd           general operand, bits 5..0
  ss_dd    op   ss,dd        src bits 11..6, dst bits 5..0
  r_dd     op   r,dd         register bits 8..6, general operand bits 5..0   (jsr, xor)
  ss_r     op   ss,r         general operand bits 5..0, register bits 8..6   (mul div ash ashc)
  r        op   r            register bits 2..0
  br       op   target       signed 8-bit word displacement, bits 7..0
  sob      op   r,target     register bits 8..6, 6-bit backward word displacement
  n8 n6 n3 op   n            unsigned inline number of that many bits at bit 0
  fdst     op   fdst         FP general operand (mode 0 = accumulator) bits 5..0
  fsrc_ac  op   fsrc,ac      FP operand bits 5..0, accumulator bits 7..6
  ac_fdst  op   ac,fdst      accumulator bits 7..6, FP operand bits 5..0
  ac_dst   op   ac,dst       accumulator bits 7..6, general operand bits 5..0
  src_ac   op   src,ac       general operand bits 5..0, accumulator bits 7..6
"""

FIELD_BITS = {
    "none": 0, "dst": 6, "ss_dd": 12, "r_dd": 9, "ss_r": 9, "r": 3, "br": 8, "sob": 9,
    "n8": 8, "n6": 6, "n3": 3, "fdst": 6, "fsrc_ac": 8, "ac_fdst": 8, "ac_dst": 8, "src_ac": 8,
}

# name -> (base opcode, format, independent?)
T = {}


def _add(fmt, indep=True, **kw):
    for name, base in kw.items():
        T[name.rstrip("_")] = (base, fmt, indep)


_add("none", halt=0o000000, wait=0o000001, rti=0o000002, bpt=0o000003, iot=0o000004, reset=0o000005,
     rtt=0o000006, mfpt=0o000007)
# 1801VM1/VM2 (Soviet LSI-11 clones): START/STEP and the HALT-mode register access group
_add("none", start=0o000012, step=0o000016, rd=0o000020, urd=0o000021, rdpc=0o000022, rdps=0o000024,
     uwr=0o000031, wrpc=0o000032, wrps=0o000034)
_add("dst", jmp=0o000100, swab=0o000300)
_add("r", rts=0o000200)
_add("r", indep=False, medlsi=0o000210)
_add("none", indep=False, u3000=0o000220)
_add("n3", spl=0o000230)
_add("none", nop=0o000240)
# condition-code operators: 0240 + bits clears, 0260 + bits sets; N=10 Z=4 V=2 C=1
for _mask in range(1, 16):
    _suffix = "".join(ch for ch, bit in (("n", 8), ("z", 4), ("v", 2), ("c", 1)) if _mask & bit)
    T["cl" + _suffix] = (0o240 + _mask, "none", True)
    T["se" + _suffix] = (0o260 + _mask, "none", True)
_add("none", ccc=0o000257, scc=0o000277)
_add("br", br=0o000400, bne=0o001000, beq=0o001400, bge=0o002000, blt=0o002400, bgt=0o003000, ble=0o003400,
     bpl=0o100000, bmi=0o100400, bhi=0o101000, blos=0o101400, bvc=0o102000, bvs=0o102400,
     bcc=0o103000, bhis=0o103000, bcs=0o103400, blo=0o103400)
_add("r_dd", jsr=0o004000, xor=0o074000)
_add("dst", clr=0o005000, com=0o005100, inc=0o005200, dec=0o005300, neg=0o005400, adc=0o005500, sbc=0o005600,
     tst=0o005700, ror=0o006000, rol=0o006100, asr=0o006200, asl=0o006300, mfpi=0o006500, mtpi=0o006600,
     sxt=0o006700, csm=0o007000, tstset=0o007200, wrtlck=0o007300)
_add("n6", mark=0o006400, xfc=0o076700)
_add("dst", clrb=0o105000, comb=0o105100, incb=0o105200, decb=0o105300, negb=0o105400, adcb=0o105500,
     sbcb=0o105600, tstb=0o105700, rorb=0o106000, rolb=0o106100, asrb=0o106200, aslb=0o106300,
     mtps=0o106400, mfpd=0o106500, mtpd=0o106600, mfps=0o106700)
_add("ss_dd", mov=0o010000, cmp=0o020000, bit=0o030000, bic=0o040000, bis=0o050000, add=0o060000,
     movb=0o110000, cmpb=0o120000, bitb=0o130000, bicb=0o140000, bisb=0o150000, sub=0o160000)
_add("ss_r", mul=0o070000, div=0o071000, ash=0o072000, ashc=0o073000)
_add("r", fadd=0o075000, fsub=0o075010, fmul=0o075020, fdiv=0o075030)
_add("sob", sob=0o077000)
_add("n8", emt=0o104000, trap=0o104400)
# CIS (commercial instruction set): register forms, then in-line ("i") forms = +0100
_CIS = dict(movc=0o30, movrc=0o31, movtc=0o32, locc=0o40, skpc=0o41, scanc=0o42, spanc=0o43, cmpc=0o44, matc=0o45,
            addn=0o50, subn=0o51, cmpn=0o52, cvtnl=0o53, cvtpn=0o54, cvtnp=0o55, ashn=0o56, cvtln=0o57,
            addp=0o70, subp=0o71, cmpp=0o72, cvtpl=0o73, mulp=0o74, divp=0o75, ashp=0o76, cvtlp=0o77)
for _n, _o in _CIS.items():
    T[_n] = (0o076000 + _o, "none", True)
    T[_n + "i"] = (0o076100 + _o, "none", True)
_add("r", l2dr=0o076020, l3dr=0o076060)
_add("none", med=0o076600)
_add("none", indep=False, med6x=0o076600, med74c=0o076601)
# FP11
_add("none", cfcc=0o170000, setf=0o170001, seti=0o170002, setd=0o170011, setl=0o170012)
# FP11 maintenance / 11-60 microbreak
_add("none", ldub=0o170003, ldsc=0o170004, sta0=0o170005, stb0=0o170006, stq0=0o170007)
_add("none", indep=False, mns=0o170004, msn=0o170004, mpp=0o170005, mrs=0o170006)
_add("dst", ldfps=0o170100, stfps=0o170200, stst=0o170300)
_add("fdst", clrf=0o170400, clrd=0o170400, tstf=0o170500, tstd=0o170500, absf=0o170600, absd=0o170600,
     negf=0o170700, negd=0o170700)
_add("fsrc_ac", mulf=0o171000, muld=0o171000, modf=0o171400, modd=0o171400, addf=0o172000, addd=0o172000,
     ldf=0o172400, ldd=0o172400, subf=0o173000, subd=0o173000, cmpf=0o173400, cmpd=0o173400,
     divf=0o174400, divd=0o174400, ldcfd=0o177400, ldcdf=0o177400)
_add("ac_fdst", stf=0o174000, std=0o174000, stcfd=0o176000, stcdf=0o176000)
_add("ac_dst", stexp=0o175000, stcfi=0o175400, stcfl=0o175400, stcdi=0o175400, stcdl=0o175400)
_add("src_ac", ldexp=0o176400, ldcif=0o177000, ldcid=0o177000, ldclf=0o177000, ldcld=0o177000)

# Aliases with fixed operands: name -> (primary mnemonic, operand template); None = written operand
ALIASES = {
    "pop": ("mov", [(2, 6), None]),        # mov (sp)+, x
    "push": ("mov", [None, (4, 6)]),       # mov x, -(sp)
    "ret": ("rts", [7]),                   # rts pc
    "return": ("rts", [7]),
    "call": ("jsr", [7, None]),            # jsr pc, x
    "callr": ("jmp", [None]),
    "sys": ("trap", [None]),
    "hlt": ("halt", []),
}
ALIAS_FORMAT = {"pop": "dst", "push": "dst", "ret": "none", "return": "none", "call": "dst", "callr": "dst",
                "sys": "n8", "hlt": "none"}

ALL_MNEMONICS = sorted(set(T) | set(ALIASES))


def classes():
    """(base, fmt) -> sorted list of synonymous mnemonics."""
    out = {}
    for n, (b, f, _) in T.items():
        out.setdefault((b, f), []).append(n)
    return {k: sorted(v) for k, v in out.items()}


def mask_of(fmt):
    return 0xFFFF & ~((1 << FIELD_BITS[fmt]) - 1)


def decode_word(w):
    """Concrete 16-bit word -> (synonym class, fmt, fields) or None.  Unambiguous by self-check."""
    hits = []
    for (base, fmt), names in classes().items():
        if w & mask_of(fmt) == base:
            hits.append((names, fmt, base))
    if not hits:
        return None
    # nested encodings: the most specific (largest mask) entry wins, e.g. 000240 nop vs cl* group
    hits.sort(key=lambda h: -bin(mask_of(h[1])).count("1"))
    names, fmt, base = hits[0]
    f = w - base
    fields = {}
    if fmt == "dst" or fmt == "fdst":
        fields["ops"] = [("g", f >> 3, f & 7)]
    elif fmt == "ss_dd":
        fields["ops"] = [("g", (f >> 9) & 7, (f >> 6) & 7), ("g", (f >> 3) & 7, f & 7)]
    elif fmt == "r_dd":
        fields["ops"] = [("r", (f >> 6) & 7), ("g", (f >> 3) & 7, f & 7)]
    elif fmt == "ss_r":
        fields["ops"] = [("g", (f >> 3) & 7, f & 7), ("r", (f >> 6) & 7)]
    elif fmt == "r":
        fields["ops"] = [("r", f & 7)]
    elif fmt == "br":
        d = f & 0xFF
        fields["ops"] = [("disp", 2 * (d - 256 if d >= 128 else d))]
    elif fmt == "sob":
        fields["ops"] = [("r", (f >> 6) & 7), ("disp", -2 * (f & 0o77))]
    elif fmt in ("n8", "n6", "n3"):
        fields["ops"] = [("n", f)]
    elif fmt == "fsrc_ac" or fmt == "src_ac":
        fields["ops"] = [("g", (f >> 3) & 7, f & 7), ("ac", (f >> 6) & 3)]
    elif fmt == "ac_fdst" or fmt == "ac_dst":
        fields["ops"] = [("ac", (f >> 6) & 3), ("g", (f >> 3) & 7, f & 7)]
    else:
        fields["ops"] = []
    return names, fmt, fields


def ext_words_of(mode, reg):
    """Number of extension words a general operand consumes."""
    return 1 if mode in (6, 7) or (reg == 7 and mode in (2, 3)) else 0


def decode(words, address):
    """Decode one instruction from a list of words (first concrete) located at ``address``.

    Returns dict(names, fmt, operands, nwords).  General operands are reported as
    dict(mode, reg, ext, ea) where ``ea`` is the effective address for PC-relative modes
    (mode 6/7 with reg 7), computed as the processor does: ext + address of the word after
    the extension word, modulo 2**16.  ``ext``/``ea`` may be symbolic expressions.
    """
    d = decode_word(words[0])
    if d is None:
        return None
    names, fmt, fields = d
    n = 1
    ops = []
    for op in fields["ops"]:
        if op[0] == "g":
            _, mode, reg = op
            o = {"kind": "g", "mode": mode, "reg": reg}
            if ext_words_of(mode, reg):
                if n >= len(words):
                    return None
                o["ext"] = words[n]
                n += 1
                if reg == 7 and mode in (6, 7):
                    o["ea"] = (words[n - 1] + address + 2 * n) % 65536
            ops.append(o)
        elif op[0] == "disp":
            ops.append({"kind": "disp", "target": address + 2 + op[1]})
        else:
            ops.append({"kind": op[0], "value": op[1]})
    return {"names": names, "fmt": fmt, "operands": ops, "nwords": n}


def self_check():
    """The decode table is unambiguous: no word matches two entries of equal specificity,
    and nested matches only occur where one encoding is a documented special case of the
    other.  Decided with z3 over 16-bit bit-vectors (and cross-checked by enumeration)."""
    import z3
    cl = list(classes().items())
    w = z3.BitVec("w", 16)
    overlaps = []
    queries = 0
    s = z3.Solver()
    for i in range(len(cl)):
        (b1, f1), n1 = cl[i]
        s.push()
        s.add(w & mask_of(f1) == b1)
        # one query for "does any other entry overlap entry i", refined only when sat
        others = [z3.And(w & mask_of(f2) == b2) for (b2, f2), _ in cl[i + 1:]]
        queries += 1
        if others and s.check(z3.Or(*others)) == z3.sat:
            for j in range(i + 1, len(cl)):
                (b2, f2), n2 = cl[j]
                queries += 1
                if s.check(w & mask_of(f2) == b2) == z3.sat:
                    overlaps.append((n1, n2))
        s.pop()
    return overlaps, queries


def fields_arith(fmt, f):
    """Field extraction using only + - * // % (stays symbolic under CrossHair; no bit ops)."""
    def g(x):  # 6-bit general operand
        return ("g", x // 8 % 8, x % 8)
    if fmt in ("dst", "fdst"):
        return [g(f)]
    if fmt == "ss_dd":
        return [g(f // 64), g(f % 64)]
    if fmt == "r_dd":
        return [("r", f // 64 % 8), g(f % 64)]
    if fmt == "ss_r":
        return [g(f % 64), ("r", f // 64 % 8)]
    if fmt == "r":
        return [("r", f % 8)]
    if fmt == "br":
        d = f % 256
        return [("disp", 2 * d - 512 * (d // 128))]
    if fmt == "sob":
        return [("r", f // 64 % 8), ("disp", -2 * (f % 64))]
    if fmt in ("n8", "n6", "n3"):
        return [("n", f)]
    if fmt in ("fsrc_ac", "src_ac"):
        return [g(f % 64), ("ac", f // 64 % 4)]
    if fmt in ("ac_fdst", "ac_dst"):
        return [("ac", f // 64 % 4), g(f % 64)]
    return []


def decode_as(name, w):
    """Is word ``w`` (possibly symbolic) an encoding of ``name``'s class?  -> fields or None.

    Sound as a decoder because the table is unambiguous (self_check): a word inside the
    range of one class belongs to no other class of equal or higher specificity.
    """
    base, fmt, _ = T[name]
    size = 1 << FIELD_BITS[fmt]
    if not (base <= w < base + size):
        return None
    return fmt, fields_arith(fmt, w - base)


def consistency_check():
    """decode_word (bit operations, concrete) and decode_as/fields_arith (arithmetic) agree on all 65536 words."""
    bad = 0
    n = 0
    for w in range(65536):
        d = decode_word(w)
        if d is None:
            continue
        names, fmt, fields = d
        r = decode_as(names[0], w)
        n += 1
        if r is None or list(map(tuple, r[1])) != list(map(tuple, fields["ops"])):
            bad += 1
    return n, bad
