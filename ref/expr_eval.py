"""Reference expression semantics (independent of pdpy11.operators / pdpy11.parser).

Documented rules: unbounded integers; unary + - ~ ^C bind tightest; then * / % ; + - ;
<< >> _ ; & ; ^ ; | ! ; all binary operators left-associative; / and % floor toward minus
infinity; << >> with a negative count, / and % by zero are errors; '_' shifts left for a
non-negative count and right (arithmetic, floor) for a negative one.

A template is a list of tokens: variable names, integers, operator strings, and the
bracket tokens "(" ")" "<" ">" "^/" "/^" (the last pair standing for ^/.../).
Only + - * // % ** and comparisons are applied to values wherever possible so that the
evaluation stays symbolic under CrossHair; & ^ | use Python's operators.
"""

PREC = {"*": 3, "/": 3, "%": 3, "+": 4, "-": 4, "<<": 5, ">>": 5, "_": 5, "&": 8, "^": 9, "|": 10, "!": 10}
PREFIX = {"+", "-", "~", "^C"}
OPEN = {"(": ")", "<": ">", "^/": "/^", "^?": "?^", "^:": ":^"}


class ArithError(Exception):
    pass


def parse(tokens):
    pos = [0]

    def peek():
        return tokens[pos[0]] if pos[0] < len(tokens) else None

    def take():
        t = tokens[pos[0]]
        pos[0] += 1
        return t

    def primary():
        t = take()
        if t in OPEN:
            e = expr(99)
            c = take()
            assert c == OPEN[t], (t, c)
            return e
        if t in PREFIX and (isinstance(t, str)):
            return ("pre", t, primary())
        return ("leaf", t)

    def expr(maxprec):
        lhs = primary()
        while True:
            t = peek()
            if t in PREC and PREC[t] <= maxprec:
                take()
                # left associative: the right operand only takes tighter-binding operators
                rhs = expr(PREC[t] - 1)
                lhs = ("bin", t, lhs, rhs)
            else:
                return lhs

    tree = expr(99)
    assert pos[0] == len(tokens), (tokens, pos[0])
    return tree


def evaluate(tree, env):
    kind = tree[0]
    if kind == "leaf":
        t = tree[1]
        return env[t] if isinstance(t, str) else t
    if kind == "pre":
        v = evaluate(tree[2], env)
        op = tree[1]
        if op == "+":
            return v
        if op == "-":
            return -v
        return -v - 1  # ~v and ^C v
    op = tree[1]
    a = evaluate(tree[2], env)
    b = evaluate(tree[3], env)
    if op == "+":
        return a + b
    if op == "-":
        return a - b
    if op == "*":
        return a * b
    if op == "/":
        if b == 0:
            raise ArithError("division by zero")
        return a // b
    if op == "%":
        if b == 0:
            raise ArithError("division by zero")
        return a % b
    if op == "<<":
        if b < 0:
            raise ArithError("negative shift")
        return a * 2 ** b
    if op == ">>":
        if b < 0:
            raise ArithError("negative shift")
        return a // 2 ** b
    if op == "_":
        if b >= 0:
            return a * 2 ** b
        return a // 2 ** (-b)
    if op == "&":
        return a & b
    if op == "^":
        return a ^ b
    if op in ("|", "!"):
        return a | b
    raise AssertionError(op)


def render(tokens, var_text):
    """Template tokens -> assembler source text. ``var_text`` maps a variable name to its text."""
    out = []
    for t in tokens:
        if isinstance(t, str) and len(t) == 2 and t[0] == "^" and t != "^C":
            out.append(t)
        elif isinstance(t, str) and len(t) == 2 and t[1] == "^":
            out.append(t[0])
        elif isinstance(t, int):
            out.append(str(t) + ".")
        elif t in var_text:
            out.append(var_text[t])
        else:
            out.append(t)
    return " ".join(out)
