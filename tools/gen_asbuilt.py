#!/usr/bin/env python3
"""Regenerate the per-property 'as built' block of DESIGN.md from the META of every props module."""
import importlib, os, sys
VERIF = os.path.dirname(os.path.dirname(os.path.abspath(__file__)))
sys.path.insert(0, VERIF)
out = []
for i in range(1, 20):
    pid = f"C{i:02d}"
    mod = importlib.import_module(f"pdpverif.props.{pid.lower()}")
    m = getattr(mod, "META", {})
    hs = sorted(n for n in dir(mod) if n.startswith("h_"))
    out.append(f"**{pid}** -- harnesses `{', '.join(hs)}`\n")
    if m.get("claim"):
        out.append(f"* claim: {m['claim']}")
    out.append(f"* bounds: {m.get('bounds', '')}")
    out.append(f"* structure: {m.get('structure', '')}")
    if m.get("stubs"):
        out.append("* stubs: " + "; ".join(m["stubs"]))
    out.append("* outside the claim: " + "; ".join(m.get("outside", [])) + "\n")
text = "\n".join(out) + "\n"
p = os.path.join(VERIF, "DESIGN.md")
s = open(p).read()
a, b = s.index("<!-- ASBUILT-BEGIN -->"), s.index("<!-- ASBUILT-END -->")
s = s[:a] + "<!-- ASBUILT-BEGIN -->\n" + text + s[b:]
open(p, "w").write(s)
print("ok")
