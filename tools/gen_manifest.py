#!/usr/bin/env python3
"""Regenerate MANIFEST.json from the property modules that exist."""
import json
import os
import subprocess
import sys

VERIF = os.path.dirname(os.path.dirname(os.path.abspath(__file__)))
sys.path.insert(0, VERIF)

TEXT = {
    "C01": ("decode(emitted words) == written operation for every operand value, register number, inline field, branch distance and link base of each enumerated mnemonic/form tuple",
            "CrossHair symbolic execution of the real assembler on one-instruction programs; z3 decides equality with an independent PDP-11 decoder"),
}

NA_REASON = {}


def main():
    props = [json.loads(l) for l in open(os.path.join(VERIF, "properties.jsonl"))]
    sys.path.insert(0, VERIF)
    checks = []
    na = []
    hook_commits = []
    try:
        out = subprocess.run(["git", "-C", "/repo", "log", "--format=%H %s"], capture_output=True, text=True).stdout
        hook_commits = [l.split()[0] for l in out.splitlines() if "verification hook" in l]
    except Exception:
        pass
    for p in props:
        pid = p["id"]
        modpath = os.path.join(VERIF, "pdpverif", "props", pid.lower() + ".py")
        if not os.path.exists(modpath):
            na.append({"property_id": pid, "reason": NA_REASON.get(pid, "solver-based check not built yet in this round (work in progress, see DESIGN.md section 7)")})
            continue
        src = open(modpath).read()
        claim = technique = None
        import importlib
        mod = importlib.import_module("pdpverif.props." + pid.lower())
        meta = getattr(mod, "META", {})
        claim = meta.get("claim") or TEXT.get(pid, ("", ""))[0]
        technique = meta.get("technique") or TEXT.get(pid, ("", ""))[1] or "CrossHair symbolic execution of the real code, z3 decides each obligation"
        checks.append({
            "property_id": pid,
            "quick_cmd": f"python3-vt -m pdpverif.check {pid} --tier quick",
            "thorough_cmd": f"python3-vt -m pdpverif.check {pid} --tier thorough",
            "evidence_file": f"/verif/evidence/{pid}.json",
            "replay_cmd_template": "python3-vt -m pdpverif.replay {path}",
            "engine": "crosshair-z3",
            "level_claimed": {
                "category": "model_checking",
                "text": "Bounded symbolic checking of the real code: " + claim + ". Within the stated bounds the solver verdict covers every value; "
                        "outside them (see evidence.outside_bounds) nothing is claimed. Structure (which program template) is enumerated, values are decided by z3.",
                "design_ref": f"DESIGN.md section 7 ({pid})",
            },
            "level_note": "Trusted: CrossHair 0.0.110's models of int/bytes/str/struct, z3 5.1.0, the engine shims listed in DESIGN.md section 5 (all exercised by "
                          "concrete replays of every twin witness and counterexample under /venv/bin/python), the reference oracles under /verif/ref. "
                          + meta.get("level_note", ""),
            "technique": technique,
        })
    man = {
        "version": 1,
        "setup_cmd": "python3-vt -m pdpverif.selftest",
        "hooks": {
            "guard": "PDPY11_VERIF",
            "enable": "environment variable PDPY11_VERIF=1 (set by the harnesses that need the statement/address/chunk trace; pure-Python, nothing to build)",
            "baseline_off_cmd": "cd /repo && env -u PDPY11_VERIF /venv/bin/python -m pytest -ra -q -p no:cacheprovider --timeout=900 --continue-on-collection-errors",
            "source_commits": hook_commits,
            "add_only": True,
        },
        "engines": [{
            "name": "crosshair-z3",
            "path": "/verif/pdpverif",
            "serves_properties": [c["property_id"] for c in checks],
            "kind_free_text": "CrossHair 0.0.110 (python3-vt) used as a library: symbolic execution of pdpy11's real functions imported from /repo's working tree, "
                              "z3 5.1.0 decides every branch and post-condition; own exploration loop (pdpverif/engine.py), forked worker per obligation, "
                              "reachability twin + concrete replay under /venv/bin/python for every obligation",
        }],
        "checks": checks,
        "notes": "Exit codes of every check: 0 all obligations discharged; 1 reproduced violation (VIOLATION line); 2 inconclusive/harness error (never success). "
                 "Known findings live in /verif/known_findings.json.",
        "not_applicable": na,
    }
    json.dump(man, open(os.path.join(VERIF, "MANIFEST.json"), "w"), indent=1)
    print("checks:", [c["property_id"] for c in checks], "n/a:", [n["property_id"] for n in na])


if __name__ == "__main__":
    main()
