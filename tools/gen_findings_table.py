#!/usr/bin/env python3
"""Regenerate the findings table of DESIGN.md section 9 (between the FINDINGS markers) from known_findings.json."""
import json, os
VERIF = os.path.dirname(os.path.dirname(os.path.abspath(__file__)))
d = json.load(open(os.path.join(VERIF, "known_findings.json")))
rows = []
for f in d["findings"]:
    rec = f["record"].replace("|", "\\|")
    rows.append(f"| {f['status']} | {f['property']} | `{f.get('commit', '-')}` | {f['id']} | {rec} |")
table = "| status | property | commit | id | what failed (input, behaviour, which obligation found it) |\n|---|---|---|---|---|\n" + "\n".join(rows) + "\n"
p = os.path.join(VERIF, "DESIGN.md")
s = open(p).read()
a, b = s.index("<!-- FINDINGS-BEGIN -->"), s.index("<!-- FINDINGS-END -->")
s = s[:a] + "<!-- FINDINGS-BEGIN -->\n" + table + s[b:]
open(p, "w").write(s)
print(len(rows), "findings")
