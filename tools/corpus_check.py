#!/usr/bin/env python3
"""Concrete regression side check (not solver evidence): assemble the 21 practice programs with the
working tree of /repo and compare with their recorded out.bin."""
import os, sys, glob, io, contextlib
sys.path.insert(0, os.environ.get("PDPVERIF_REPO", "/repo"))
from pdpy11 import bk_encoding, parser, reports
from pdpy11.compiler import Compiler
from pdpy11.formats import file_formats
root = os.path.join(os.environ.get("PDPVERIF_REPO", "/repo"), "tests", "practice")
bad = 0
for d in sorted(os.listdir(root)):
    src = os.path.join(root, d, "code.mac")
    ref = os.path.join(root, d, "out.bin")
    if not os.path.exists(src):
        continue
    try:
        with contextlib.redirect_stderr(io.StringIO()), contextlib.redirect_stdout(io.StringIO()):
            with reports.handle_reports(lambda *a: None):
                ast = parser.parse(src, open(src, encoding="utf-8").read())
                comp = Compiler()
                base, code = comp.compile_and_link_files([ast])
        got = file_formats["bin"](base, code)
        want = open(ref, "rb").read()
        ok = got == want or code == want
    except BaseException as e:
        ok = False
        got = repr(e)
    print(d, "ok" if ok else "DIFF")
    bad += not ok
sys.exit(1 if bad else 0)
