#!/bin/bash
# run every quick check once against /repo, in sequence; one summary line each
cd /verif
for p in C01 C02 C03 C04 C05 C06 C07 C08 C09 C10 C11 C12 C13 C14 C15 C16 C17 C18 C19; do
  s=$(date +%s)
  python3-vt -m pdpverif.check $p --tier ${1:-quick} > build/all_$p.log 2>&1
  rc=$?
  echo "$p rc=$rc $(( $(date +%s) - s ))s $(tail -1 build/all_$p.log | cut -c1-200)"
done
