#!/bin/bash
# usage: seed_verify.sh <worktree> <seeddir>   -- confirm a candidate seeded change in a scratch worktree
# prints: tests-with-change, demo-with-change (must be non-zero), demo-without (must be 0)
set -u
WT=$1; SD=$2
cd "$WT" || exit 9
git checkout -q -- pdpy11
git apply --check "$SD/patch.diff" || { echo "PATCH-DOES-NOT-APPLY"; exit 9; }
git apply "$SD/patch.diff"
T=$(/venv/bin/python -m pytest -q -p no:cacheprovider --timeout=900 --continue-on-collection-errors 2>&1 | tail -1)
(cd /tmp && /venv/bin/python "$SD/demo.py" "$WT" > /tmp/demo_with_$$.out 2>&1); DW=$?
git checkout -q -- pdpy11
(cd /tmp && /venv/bin/python "$SD/demo.py" "$WT" > /tmp/demo_without_$$.out 2>&1); DO=$?
echo "tests_with_change: $T"
echo "demo_with_change_exit: $DW  ($(tail -1 /tmp/demo_with_$$.out | cut -c1-160))"
echo "demo_without_change_exit: $DO"
if echo "$T" | grep -q "180 passed" && [ $DW -ne 0 ] && [ $DO -eq 0 ]; then echo "SEED-OK"; else echo "SEED-REJECTED"; fi
rm -f /tmp/demo_with_$$.out /tmp/demo_without_$$.out
