#!/bin/bash
# usage: seed_try.sh <patch.diff> <Cxx> [more check args]   -- apply a seeded change to /repo, run a check, undo it
set -u
PATCH=$1; shift
PROP=$1; shift
cd /repo || exit 9
if [ -n "$(git status --porcelain -- pdpy11)" ]; then echo "/repo not clean"; exit 9; fi
git apply "$PATCH" || exit 9
cd /verif
python3-vt -m pdpverif.check "$PROP" "$@" > /tmp/seed_try.out 2>&1
RC=$?
git -C /repo checkout -- .
echo "exit=$RC"
grep -E "^VIOLATION|^KNOWN" /tmp/seed_try.out | head -5
grep -A1 "^VIOLATION" /tmp/seed_try.out | grep obligation | head -3
tail -1 /tmp/seed_try.out
