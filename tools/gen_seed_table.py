#!/usr/bin/env python3
"""Regenerate the seeded-changes table of DESIGN.md (between the SEEDS markers) from seeded/*/meta.json."""
import glob, json, os, re
VERIF = os.path.dirname(os.path.dirname(os.path.abspath(__file__)))
rows = []
for d in sorted(glob.glob(os.path.join(VERIF, "seeded", "*"))):
    m = json.load(open(os.path.join(d, "meta.json")))
    sid = os.path.basename(d)
    def cell(x):
        return str(x).replace("|", "\\|").replace("\n", " ")
    rows.append(f"| {sid} | {cell(m.get('summary', ''))[:220]} | {cell(m.get('needs', ''))[:200]} | {cell(m.get('caught_by', 'NOT CAUGHT'))} |")
table = "| seed | change | needs, in order to manifest | caught by (quick tier) |\n|---|---|---|---|\n" + "\n".join(rows) + "\n"
p = os.path.join(VERIF, "DESIGN.md")
s = open(p).read()
a, b = s.index("<!-- SEEDS-BEGIN -->"), s.index("<!-- SEEDS-END -->")
s = s[:a] + "<!-- SEEDS-BEGIN -->\n" + table + s[b:]
open(p, "w").write(s)
print(len(rows), "seeds")
