#!/bin/bash
# usage: seed_try2.sh <seed-id> <Cxx> [check args]  -- run a check against a scratch worktree of /repo with the seeded change applied
# (equivalent to applying the patch to /repo, but leaves /repo untouched so that several trials can run side by side)
set -u
SEED=$1; shift
PROP=$1; shift
WT=/tmp/try_${SEED}_$$
git -C /repo worktree add -q "$WT" HEAD || exit 9
if ! git -C "$WT" apply "/verif/seeded/$SEED/patch.diff"; then echo "$SEED: PATCH DOES NOT APPLY"; git -C /repo worktree remove --force "$WT"; exit 9; fi
cd /verif
PDPVERIF_REPO=$WT PDPVERIF_BUILD=/tmp/build_${SEED}_$$ PDPVERIF_NO_EVIDENCE=1 python3-vt -m pdpverif.check "$PROP" "$@" > /tmp/seed_try_${SEED}.out 2>&1
RC=$?
git -C /repo worktree remove --force "$WT"
rm -rf /tmp/build_${SEED}_$$
echo "$SEED $PROP exit=$RC $(grep -c '^VIOLATION' /tmp/seed_try_${SEED}.out) violations; $(grep -A1 '^VIOLATION' /tmp/seed_try_${SEED}.out | grep obligation | head -2 | cut -c1-160 | tr '\n' ' ') | $(tail -1 /tmp/seed_try_${SEED}.out | cut -c1-120)"
