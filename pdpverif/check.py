"""CLI:  python3-vt -m pdpverif.check <Cxx> [--tier quick|thorough] [--jobs N] [--only GLOB]

exit 0  every obligation discharged (known findings announced with KNOWN-FINDING lines)
exit 1  at least one reproduced violation not listed in known_findings.json
exit 2  harness error or inconclusive obligation (never reported as success)
"""
import argparse
import fnmatch
import importlib
import json
import os
import sys
import time

from . import common


def load_known(prop):
    p = os.path.join(common.VERIF, "known_findings.json")
    if not os.path.exists(p):
        return []
    data = json.load(open(p))
    return [f for f in data.get("findings", []) if f.get("property") == prop]


def main(argv=None):
    ap = argparse.ArgumentParser()
    ap.add_argument("prop")
    ap.add_argument("--tier", default=os.environ.get("VERIF_TIER", "quick"), choices=["quick", "thorough"])
    ap.add_argument("--jobs", type=int, default=int(os.environ.get("VERIF_JOBS", "16")))
    ap.add_argument("--only", default=None, help="glob on obligation ids (debugging; evidence is not written)")
    ap.add_argument("--list", action="store_true")
    ap.add_argument("-v", action="store_true")
    args = ap.parse_args(argv)
    prop = args.prop.upper()
    seed = int(os.environ.get("VERIF_SEED", "0") or 0)
    t0 = time.time()

    os.makedirs(os.path.join(common.BUILD, "replay"), exist_ok=True)
    common.import_repo()  # regenerated from /repo's current source on every run
    from . import obligations as O
    from . import engine  # noqa: F401  (imports CrossHair once, before forking)
    from . import shims

    mod = importlib.import_module(f"pdpverif.props.{prop.lower()}")
    obs = mod.obligations(args.tier, seed)
    if args.only:
        obs = [o for o in obs if fnmatch.fnmatchcase(o.oid, args.only)]
    ids = [o.oid for o in obs]
    assert len(ids) == len(set(ids)), "duplicate obligation ids: " + str([i for i in ids if ids.count(i) > 1][:5])
    if args.list:
        for o in obs:
            print(o.oid, o.harness, json.dumps(o.params)[:200], o.vars)
        print(len(obs), "obligations")
        return 0
    known = load_known(prop)

    def log(done, total, r):
        if args.v or r["status"] != "confirmed":
            cl = r.get("claim", {})
            print(f"[{done}/{total}] {r['oid']}: {r['status']} paths={r.get('paths')} cpu={cl.get('cpu_s')} "
                  + (" | ".join(m[:400] for m in r.get("messages", []))), file=sys.stderr, flush=True)

    results = O.run_all(obs, known, jobs=args.jobs, log=log)

    n_conf = sum(r["status"] == "confirmed" for r in results)
    viol = [r for r in results if r["status"] == "violated"]
    bad = [r for r in results if r["status"] in ("harness_error", "inconclusive", "unknown")]
    known_hits = {}
    for r in results:
        for k in r.get("known", []):
            known_hits.setdefault(k["id"], k)
    for kid, k in known_hits.items():
        print(f"KNOWN-FINDING: property={prop} {kid}: {k['what']}")
    for f in known:
        if f.get("status") == "fixed":
            pass  # a fixed entry suppresses nothing and prints nothing
    replay_paths = []
    for n, r in enumerate(viol):
        path = os.path.join(common.BUILD, "replay", f"{prop}-{n}.json")
        rec = {"property": prop, "obligation": r["oid"], "harness": r["harness"], "params": r["params"],
               "values": r["cex"]["values"], "detail": r["cex"]["detail"], "concrete_replay": r["cex"]["replay"],
               "rerun": f"python3-vt -m pdpverif.replay {path}"}
        json.dump(rec, open(path, "w"), indent=1)
        replay_paths.append(path)
        print(f"VIOLATION property={prop} replay={path}")
        print(f"  obligation {r['oid']}: values={json.dumps(r['cex']['values'])[:400]} {r['cex']['detail'][:300]}", file=sys.stderr)
    for r in bad:
        print(f"INCONCLUSIVE/HARNESS-ERROR {r['oid']}: {r['status']}: " + " | ".join(r.get("messages", []))[:1500], file=sys.stderr)

    wall = time.time() - t0
    try:
        json.dump([{"oid": r["oid"], "status": r["status"], "wall_s": r.get("wall_s"), "paths": r.get("paths"),
                    "cpu_s": (r.get("claim") or {}).get("cpu_s"), "twin_cpu_s": (r.get("twin") or {}).get("cpu_s")} for r in results],
                  open(os.path.join(common.BUILD, f"last_{prop}.json"), "w"), indent=0)
    except Exception:
        pass
    if not args.only and not os.environ.get("PDPVERIF_NO_EVIDENCE"):
        write_evidence(prop, args.tier, seed, mod, obs, results, wall, shims.ACTIVE, known_hits)
    print(f"{prop} {args.tier}: {len(obs)} obligations, {n_conf} confirmed, {len(viol)} violated, {len(bad)} inconclusive/error, "
          f"{len(known_hits)} known findings, paths={sum(r.get('paths', 0) for r in results)} z3_queries={sum(r.get('queries', 0) for r in results)} "
          f"solver_s={sum(r.get('solver_s', 0) for r in results):.1f} wall={wall:.1f}s")
    if viol:
        return 1
    if bad:
        return 2
    return 0


def write_evidence(prop, tier, seed, mod, obs, results, wall, shims_active, known_hits):
    meta = getattr(mod, "META", {})
    funcs = sorted({f for r in results for f in r.get("functions", [])})
    samples = []
    step = max(1, len(results) // 12)
    for r in results[::step][:14]:
        samples.append({"obligation": r["oid"], "harness": r["harness"], "params": r["params"], "symbolic_vars": r["vars"],
                        "pre": r.get("pre", ""), "verdict": r["status"], "paths": r.get("paths"),
                        "twin_witness": (r.get("twin") or {}).get("witness"), "cpu_s": (r.get("claim") or {}).get("cpu_s")})
    for r in results:
        if r["status"] != "confirmed" or r.get("known"):
            samples.append({"obligation": r["oid"], "verdict": r["status"], "messages": r.get("messages"), "known": r.get("known"),
                            "cex": r.get("cex")})
    ev = {
        "property_id": prop,
        "tier": tier,
        "seed": seed,
        "level": "model_checking",
        "coverage": {
            "states": max(1, sum(r.get("paths", 0) for r in results)),
            "transitions": max(1, sum(r.get("queries", 0) for r in results)),
            "traces_validated_against_impl": sum(r.get("replays", 0) for r in results),
            "samples": samples[:60],
            "obligations": len(results),
            "discharged": sum(r["status"] == "confirmed" for r in results),
            "inconclusive": sum(r["status"] in ("inconclusive", "harness_error", "unknown") for r in results),
            "violated": sum(r["status"] == "violated" for r in results),
            "known_findings_announced": sorted(known_hits),
            "shrunk_obligations": [r["oid"] for r in results if r.get("shrunk")],
            "solver_time_s": round(sum(r.get("solver_s", 0) for r in results), 2),
            "cpu_time_s": round(sum((r.get("claim") or {}).get("cpu_s", 0) or 0 for r in results), 1),
            "functions_encoded": funcs,
            "engine": "CrossHair 0.0.110 symbolic execution of the real pdpy11 code, z3 deciding every branch and every post-condition; "
                      "states = execution paths explored, transitions = z3 check() calls",
            "bounds": meta.get("bounds", ""),
            "outside_bounds": meta.get("outside", []),
            "structure": meta.get("structure", ""),
            "stubs": meta.get("stubs", []),
            "shims": list(shims_active),
            "explanation": meta.get("explanation", ""),
            "exhaustive": False,
        },
        "assumptions": meta.get("assumptions", []) + [
            "CrossHair's models of int/bytes/str/struct agree with CPython (checked on every twin witness and counterexample by concrete replay under /venv/bin/python)",
            "z3 5.1.0 is sound",
            "pdpy11 behaves identically on CPython 3.11 (traced) and 3.12 (replays)",
        ],
        "wall_s": round(wall, 1),
        "violations": sum(r["status"] == "violated" for r in results),
    }
    os.makedirs(os.path.join(common.VERIF, "evidence"), exist_ok=True)
    json.dump(ev, open(os.path.join(common.VERIF, "evidence", f"{prop}.json"), "w"), indent=1)


if __name__ == "__main__":
    sys.exit(main())
