"""Run the real ``pdpy11._cli.main_cli`` against an in-memory environment.

Stubs (environment only, each listed in the evidence): ``argparser.parse_args`` returns a
namespace built by the harness; ``open`` (as seen by _cli) serves source files from a dict;
``open_device`` (as seen by _cli and compiler) is an in-memory recorder that always succeeds;
``sys.stdout``/``sys.stderr`` are captured.  ``sys.exit`` is observed through SystemExit.
"""
import argparse
import contextlib
import io
import sys

from .common import notrace

WARNING_SELECTIONS = [None, ["all"], ["no-implicit-operand", "no-excess-hash"], ["all", "no-all"], ["legacy-deferred", "no-default"],
                      ["unexpected-newline"], ["all", "no-implicit-accumulator", "no-meta-typo"]]
FORMATS = ["graphical", "bare"]


class CliResult:
    def __init__(self):
        self.exit = None       # None = returned normally, else SystemExit code
        self.writes = []       # (path, mode, data)
        self.stdout = b""
        self.stderr = ""
        self.stderr_chunks = []
        self.crash = None


class _Rec:
    def __init__(self, res):
        self.res = res

    def open_device(self, path, mode="rb", data_format=None):
        res = self.res

        class F:
            def __init__(self):
                self.chunks = []

            def write(self, data):
                self.chunks.append(data)

            def __enter__(self):
                return self

            def __exit__(self, *a):
                data = self.chunks[0] if len(self.chunks) == 1 else (b"" if "b" in mode else "").join(self.chunks) if self.chunks else (b"" if "b" in mode else "")
                res.writes.append((path, mode, data))
                return False
        return F()


class _Stdout:
    def __init__(self):
        self.buffer = self
        self.chunks = []

    def write(self, data):
        self.chunks.append(data)
        return len(data)

    def flush(self):
        pass

    # CrossHair's patched print() deep-realises its keyword arguments, i.e. copies the object given as file=...:
    # the stream must stay the one the harness reads afterwards
    def __deepcopy__(self, memo):
        return self

    def __copy__(self):
        return self

    def __ch_deep_realize__(self, memo):
        return self


def run_cli(infiles, sources, *, outfile=None, implicit_bin=False, lst=False, charset="bk", report_format="graphical",
            warnings=None, compiler_cls=None, parse_fn=None):
    """Run main_cli.  ``sources``: {absolute path: text}.  Returns CliResult."""
    import pdpy11._cli as cli
    import pdpy11.compiler as comp_mod
    from pdpy11 import reports, deferred

    res = CliResult()
    ns = argparse.Namespace(infiles=list(infiles), outfile=outfile, implicit_bin=implicit_bin, lst=lst, charset=charset,
                            report_format=report_format, warnings=warnings)
    rec = _Rec(res)

    def fake_open(path, *a, **kw):
        if path in sources:
            return io.StringIO(sources[path])
        raise FileNotFoundError(path)

    saved = (cli.argparser.parse_args, cli.__dict__.get("open"), cli.open_device, comp_mod.open_device, cli.Compiler, cli.parser.parse)
    out, err = _Stdout(), _Stdout()
    cli.argparser.parse_args = lambda *a, **k: ns
    cli.open = fake_open
    cli.open_device = rec.open_device
    comp_mod.open_device = rec.open_device
    if compiler_cls is not None:
        cli.Compiler = compiler_cls
    real_parse = cli.parser.parse
    if parse_fn is not None:
        cli.parser.parse = parse_fn
    old_out, old_err = sys.stdout, sys.stderr
    sys.stdout, sys.stderr = out, err
    try:
        try:
            cli.main_cli()
        except SystemExit as e:
            res.exit = e.code if e.code is not None else 0
        except Exception as e:  # noqa: BLE001
            res.crash = f"{type(e).__name__}: {e}"
    finally:
        sys.stdout, sys.stderr = old_out, old_err
        cli.argparser.parse_args = saved[0]
        if saved[1] is None:
            cli.__dict__.pop("open", None)
        else:
            cli.open = saved[1]
        cli.open_device, comp_mod.open_device, cli.Compiler = saved[2], saved[3], saved[4]
        cli.parser.parse = real_parse
        # a failing run must not leak handler/awaiting state into the next one (checked separately by C18)
        del reports.handle_reports.handlers_stack[:]
        del deferred.Awaiting.awaiting_stack[:]
        deferred.try_compute.depth = 0
    res.stdout = out.chunks
    res.stderr_chunks = err.chunks      # what was printed to standard error, piece by piece (pieces may be symbolic under tracing)
    with notrace():
        try:
            res.stderr = "".join(c if isinstance(c, str) else c.decode("utf-8", "replace") for c in err.chunks)
        except Exception:
            res.stderr = ""
    return res
