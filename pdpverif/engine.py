"""CrossHair driver: symbolic exploration of a harness body with z3 deciding every branch.

The loop is modelled on crosshair.core.explore_paths / analyze_calltree, but keeps the
verdict bookkeeping in our hands:

* ``confirmed``  – the path tree was exhausted and every complete path ended with the
                   post-condition true (z3 found ``not post`` unsat on each of them);
* ``refuted``    – some path ended with the post-condition false; the symbolic inputs are
                   realised from the z3 model on that path and returned as counterexample;
* ``error``      – the harness body raised an ordinary exception on some path (inputs
                   realised the same way);
* ``unknown``    – anything else: time budget exhausted, a path CrossHair could not model
                   (UnexploredPath: z3 unknown, per-path timeout, unsupported op), ...
                   NEVER reported as success.
"""
import inspect
import sys
import time
import traceback
from dataclasses import dataclass, field
from time import process_time
from typing import Any, Callable, Dict, Optional

import z3

from crosshair.core import (
    Patched,
    ExceptionFilter,
    gen_args,
    deep_realize,
    realize,
)
from crosshair.core_and_libs import NoTracing, ResumedTracing  # noqa: F401  (loads lib patches)
from crosshair.statespace import (
    CallAnalysis,
    RootNode,
    StateSpace,
    StateSpaceContext,
    VerificationStatus,
    context_statespace,
)
from crosshair.tracers import COMPOSITE_TRACER
from crosshair.util import IgnoreAttempt, UnexploredPath, NotDeterministic

from . import common
from . import shims  # noqa: F401  (installs the engine shims on import)


from .common import Skip  # raised by a harness body when its pre-condition fails


# ---------------------------------------------------------------------------------------
# z3 accounting
# ---------------------------------------------------------------------------------------
class SolverStats:
    queries = 0
    seconds = 0.0
    unknowns = 0


_orig_check = z3.Solver.check


def _counting_check(self, *a, **kw):
    t0 = time.perf_counter()
    try:
        r = _orig_check(self, *a, **kw)
    finally:
        SolverStats.queries += 1
        SolverStats.seconds += time.perf_counter() - t0
    if r == z3.unknown:
        SolverStats.unknowns += 1
    return r


z3.Solver.check = _counting_check


@dataclass
class Verdict:
    status: str  # confirmed | refuted | error | unknown
    paths: int = 0
    confirmed_paths: int = 0
    skipped_paths: int = 0
    unknown_paths: int = 0
    cex: Optional[Dict[str, Any]] = None
    detail: str = ""
    queries: int = 0
    solver_s: float = 0.0
    cpu_s: float = 0.0
    wall_s: float = 0.0
    extra: Dict[str, Any] = field(default_factory=dict)

    def as_dict(self):
        d = dict(self.__dict__)
        return d


def _sig_for(argtypes: Dict[str, type]) -> inspect.Signature:
    return inspect.Signature(
        [inspect.Parameter(n, inspect.Parameter.POSITIONAL_OR_KEYWORD, annotation=t) for n, t in argtypes.items()]
    )


def explore(
    body: Callable[..., Any],
    argtypes: Dict[str, type],
    *,
    timeout: float = 60.0,
    per_path_timeout: float = 20.0,
    max_paths: int = 100000,
    stop_on_first: bool = True,
) -> Verdict:
    """Symbolically execute ``body(**symbolic_args)``.

    ``body`` returns a (possibly symbolic) truth value: the post-condition.  It raises
    ``Skip`` when the pre-condition fails.  ``timeout`` is CPU seconds for the whole
    exploration, ``per_path_timeout`` CPU seconds for one path.
    """
    sig = _sig_for(argtypes)
    root = RootNode()
    v = Verdict(status="unknown")
    q0, s0 = SolverStats.queries, SolverStats.seconds
    cpu0, wall0 = process_time(), time.time()
    exhausted = False
    reason = ""
    for i in range(1, max_paths + 1):
        start = process_time()
        if start - cpu0 > timeout:
            reason = f"time budget of {timeout}s exhausted after {i - 1} paths"
            break
        space = StateSpace(
            execution_deadline=start + per_path_timeout,
            model_check_timeout=per_path_timeout / 2,
            search_root=root,
        )
        status: Optional[VerificationStatus]
        found = None
        try:
            with Patched(), COMPOSITE_TRACER, NoTracing(), StateSpaceContext(space):
                try:
                    args = gen_args(sig)
                    user_exc = None
                    ok = None
                    with ExceptionFilter() as ef, ResumedTracing():
                        try:
                            ok = bool(body(**args.arguments))
                        except Skip:
                            raise IgnoreAttempt("pre-condition")
                    if ef.ignore:
                        status = None
                        v.skipped_paths += 1
                    elif ef.user_exc is not None:
                        user_exc, tb = ef.user_exc
                        if isinstance(user_exc, NotDeterministic):
                            raise user_exc
                        with ResumedTracing():
                            space.detach_path(user_exc)
                        conc = deep_realize(dict(args.arguments))
                        found = ("error", conc, f"{type(user_exc).__name__}: {user_exc}\n" + "".join(tb.format()[-12:]))
                        status = VerificationStatus.REFUTED
                    elif ok:
                        status = VerificationStatus.CONFIRMED
                        v.confirmed_paths += 1
                    else:
                        with ResumedTracing():
                            space.detach_path()
                        conc = deep_realize(dict(args.arguments))
                        try:
                            v.extra["side"] = deep_realize(dict(common.SIDE))
                        except Exception as e:  # noqa: BLE001
                            v.extra["side"] = {"unrealisable": repr(e)}
                        found = ("refuted", conc, "post-condition false")
                        status = VerificationStatus.REFUTED
                except IgnoreAttempt:
                    status = None
                    v.skipped_paths += 1
                except UnexploredPath as e:
                    status = VerificationStatus.UNKNOWN
                    v.unknown_paths += 1
                    v.extra.setdefault("unknown_reasons", [])
                    if len(v.extra["unknown_reasons"]) < 5:
                        v.extra["unknown_reasons"].append(f"{type(e).__name__}: {e}"[:300])
                top, exhausted = space.bubble_status(CallAnalysis(status))
        except NotDeterministic:
            v.paths = i
            v.status = "unknown"
            v.detail = "NotDeterministic: harness took different decisions on a replayed prefix\n" + traceback.format_exc()[-1500:]
            break
        v.paths = i
        if found is not None:
            kind, conc, detail = found
            v.status = kind
            v.cex = conc
            v.detail = detail
            if stop_on_first:
                break
        if exhausted:
            break
    else:
        reason = f"max_paths={max_paths} reached"
    if v.status == "unknown" and not v.detail:
        if exhausted and v.unknown_paths == 0 and v.confirmed_paths > 0:
            v.status = "confirmed"
        elif exhausted and v.unknown_paths == 0 and v.confirmed_paths == 0:
            v.status = "unknown"
            v.detail = "vacuous: every path was skipped by the pre-condition"
        elif exhausted:
            v.detail = f"{v.unknown_paths} path(s) could not be decided: {v.extra.get('unknown_reasons')}"
        else:
            v.detail = reason or "search stopped before exhaustion"
    v.queries = SolverStats.queries - q0
    v.solver_s = round(SolverStats.seconds - s0, 3)
    v.cpu_s = round(process_time() - cpu0, 3)
    v.wall_s = round(time.time() - wall0, 3)
    return v
