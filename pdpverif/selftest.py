"""Setup command: nothing to build (pure Python); verify the tool chain and the oracles.

* CrossHair + z3 import under python3-vt; /venv/bin/python can import pdpy11 from /repo
* engine smoke test: one obligation confirmed, its negation refuted with the right model
* oracle self-checks (DESIGN.md section 6): decode table unambiguous (z3), end-around-carry
  lemma (z3 and cvc5 binary)
"""
import os
import subprocess
import sys
import time


def main():
    t0 = time.time()
    from . import common
    common.import_repo()
    from . import engine, symasm
    from .common import require
    os.makedirs(common.BUILD, exist_ok=True)

    def body(X):
        require(-65536 < X < 65536)
        o = symasm.assemble([("a.mac", "mov #{X}, r1\n")], {"X": X})
        return o.status == "ok" and symasm.word_at(o.code, 2) == X % 65536

    v = engine.explore(body, {"X": int}, timeout=60)
    assert v.status == "confirmed", v

    def twin(X):
        require(-65536 < X < 65536)
        o = symasm.assemble([("a.mac", "mov #{X}, r1\n")], {"X": X})
        return symasm.word_at(o.code, 2) != 0x1234

    v = engine.explore(twin, {"X": int}, timeout=60)
    assert v.status == "refuted" and v.cex["X"] % 65536 == 0x1234, v

    p = subprocess.run(["/venv/bin/python", "-c", "import sys; sys.path.insert(0,'/repo'); import pdpy11.compiler; print('ok')"],
                       capture_output=True, text=True, cwd="/")
    assert p.stdout.strip() == "ok", p.stderr

    from ref import pdp11_isa, selfcheck
    ov, q = pdp11_isa.self_check()
    assert not ov, ov
    res = selfcheck.run_all()
    print(f"selftest ok: engine smoke test, decode table unambiguous ({q} z3 queries), oracle lemmas: {res}; {time.time() - t0:.1f}s")
    return 0


if __name__ == "__main__":
    sys.exit(main())
