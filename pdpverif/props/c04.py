"""C04  Branches and PC-relative operands hit their target or are rejected."""
from ..common import require
from ..obligations import Ob
from ..symasm import assemble
from . import c01

H = "pdpverif.props.c04:h_layout"

META = {
    "claim": "a branch/SOB is accepted iff its byte offset is even and within reach (-256..254, SOB -126..0) and then the decoded displacement "
             "equals target-(address+2); rejected ones fail with branch-out-of-bounds/odd-branch; PC-relative operands decode to the written "
             "target modulo 2^16 in every operand position",
    "technique": "CrossHair symbolic execution of the real OffsetOperandStub/RegisterModeOperandStub paths; z3 decides accept/reject and "
                 "displacement for all integer distances and bases",
    "bounds": "branch distance D: ALL integers (unbounded) for '.+D', 'L+K', 'L-K'; link base 0..65535; relative targets in (-2^17, 2^17); "
              "separations made of real bytes are concrete {0,2,4,6,250,252,254,256,258}",
    "outside": ["distances produced by real intervening bytes other than the listed concrete separations",
                "diagnostic text (format shim)"],
    "structure": "17 branch mnemonics + sob x target spellings {.+D, L+K (L before), L+K (L after), L-K, local label, local label with "
                 "fix-up, bare label at concrete separation}; relative operands in 12 layouts",
    "stubs": [],
}

BRANCHES = ["br", "bne", "beq", "bge", "blt", "bgt", "ble", "bpl", "bmi", "bhi", "blos", "bvc", "bvs", "bcc", "bhis", "bcs", "blo"]


def lin(spec, vals):
    """spec = {"c": const, "K": coef, ...} -> linear combination over vals."""
    r = spec.get("c", 0)
    for k, c in spec.items():
        if k == "c":
            continue
        r = r + c * vals[k]
    return r


def h_layout(params, vals, ctx):
    """One instruction under test inside a small program.

    params: text, insn_off (bytes before the instruction), insn_len, mn, expect (as c01),
            derived {name: linear spec}, accept {off: name, lo, hi} or None, ranges {var: [lo, hi]}
    """
    from ref import pdp11_isa as isa
    for v, (lo, hi) in params.get("ranges", {}).items():
        if lo is not None:
            require(vals[v] >= lo)
        if hi is not None:
            require(vals[v] <= hi)
    if ".word" in params["text"]:
        require(vals["B"] % 2 == 0)  # word data on an odd address is an error by itself (C06)
    v2 = dict(vals)
    v2["FIVE"] = 5
    for name, spec in params.get("derived", {}).items():
        v2[name] = lin(spec, v2)
    o = assemble([("a.mac", params["text"])], vals, route=ctx.route)
    ctx.observe_outcome(o)
    acc = params.get("accept")
    accepted = True
    if acc is not None:
        off = v2[acc["off"]]
        odd = off % 2 == 1
        out = not (acc["lo"] <= off <= acc["hi"])
        accepted = not odd and not out
        ctx.reach(accepted if params.get("reach", "accept") == "accept" else not accepted)
        if not accepted:
            if o.status != "failed":
                return False
            ids = o.error_ids
            if odd and "odd-branch" not in ids:
                return False
            if out and "branch-out-of-bounds" not in ids:
                return False
            return True
    else:
        ctx.reach(o.status == "ok")
    if o.status != "ok" or o.errors:
        return False
    base = vals["B"] if "B" in vals else 0o1000
    if o.base != base:
        return False
    a, n = params["insn_off"], params["insn_len"]
    if len(o.code) != params["total_len"]:
        return False
    return c01.decode_matches(isa, params["mn"], params["expect"], o.code[a:a + n], base + a, v2)


def _br(mn, tag, text, insn_off, total_len, derived, offname="OFF", reg=None, ranges=None):
    sob = mn == "sob"
    reach = "accept"
    if set(derived[offname]) == {"c"}:  # concrete offset: the twin must reach whatever side it falls on
        off = derived[offname]["c"]
        if off % 2 or not ((-126 if sob else -256) <= off <= (0 if sob else 254)):
            reach = "reject"
    expect = ([{"kind": "r", "reg": "R"}] if sob else []) + [{"kind": "disp", "offvar": offname}]
    vars_ = {"B": "int"}
    for k in ("D", "K", "R"):
        if "{" + k + "}" in text:
            vars_[k] = "int"
    rg = {"B": [0, 65535]}
    if "R" in vars_:
        rg["R"] = [0, 7]
    rg.update(ranges or {})
    return Ob(oid=f"br/{mn}/{tag}", harness=H,
              params={"text": text, "insn_off": insn_off, "insn_len": 2, "total_len": total_len, "mn": mn, "expect": expect,
                      "derived": derived, "accept": {"off": offname, "lo": -126 if sob else -256, "hi": 0 if sob else 254}, "ranges": rg, "reach": reach},
              vars=vars_, timeout=200, per_path=60, note=text.replace("\n", " / "),
              pre="B in 0..65535, R in 0..7, distance: every integer")


def h_include(params, vals, ctx):
    """Branches and relative operands inside an included file that point at a label of the including file."""
    import os
    from ref import pdp11_isa as isa
    from ..common import BUILD
    from ..symasm import write_aux_file, render
    b, k = vals["B"], vals["K"]
    require(0 <= b < 60000 and b % 2 == 0)
    require(0 <= k <= 3)
    from ..common import concretize
    k = concretize(k)
    sfx = "" if ctx.route == "inject" else f"_t{os.getpid()}"
    inc = f"c04inc_{params['tag']}{sfx}.mac"
    body = params["insn"] + "\n"
    write_aux_file("c04", inc, body)
    main = os.path.join(BUILD, "aux", "c04", f"main_{params['tag']}.mac")
    pad = ".word 0\n" * k
    link_first = params.get("link_pos", "start") == "start"
    text = (".link {B}\n" if link_first else "") + "ext:: nop\n" + pad + f'.include "{inc}"\n.word 7\n' + ("" if link_first else ".link {B}\n")
    o = assemble([(main, text)], vals, route=ctx.route, order=["B", "K"])
    ctx.observe_outcome(o)
    ctx.reach(o.status == "ok")
    if o.status != "ok" or o.errors:
        return False
    off = 2 + 2 * k
    n = params["insn_len"]
    v2 = dict(vals)
    v2["FIVE"] = 5
    v2["T"] = b            # address of ext
    v2["OFF"] = b - (b + off + 2)
    return c01.decode_matches(isa, params["mn"], params["expect"], o.code[off:off + n], b + off, v2)


def h_shadowed_target(params, vals, ctx):
    """A branch / relative operand to a label defined further down in its own file, while a file linked earlier exports the same name:
    the target is the file's own label."""
    from ref import pdp11_isa as isa
    b, k = vals["B"], vals["K"]
    require(0 <= b < 60000 and b % 2 == 0)
    require(0 <= k <= 3)
    from ..common import concretize
    k = concretize(k)
    insn, n = params["insn"], params["insn_len"]
    first = "foo:: nop\n.blkb 20\n"                     # 18 bytes, exports foo at the base
    second = insn + "\n" + ".word 0\n" * k + "foo: nop\n"
    files = [("/w/o.mac", ".link {B}\n" + first), ("/w/a.mac", second)]
    o = assemble(files, vals, route=ctx.route, order=["B", "K"])
    ctx.observe_outcome(o)
    ctx.reach(o.status == "ok")
    if o.status != "ok" or o.errors:
        return False
    off = 18
    own = b + off + n + 2 * k
    v2 = dict(vals)
    v2["T"] = own
    v2["OFF"] = own - (b + off + 2)
    v2["FIVE"] = 5
    return c01.decode_matches(isa, params["mn"], params["expect"], o.code[off:off + n], b + off, v2)


def h_include_then_local(params, vals, ctx):
    """'1:' of the including file is still the target of 'br 1' after an '.include' of a file that has its own '1:' and stops early."""
    import os
    from ref import pdp11_isa as isa
    from ..common import BUILD, concretize
    from ..symasm import write_aux_file
    b, k = vals["B"], vals["K"]
    require(0 <= b < 60000 and b % 2 == 0)
    require(0 <= k <= 3)
    k = concretize(k)
    how, mn = params["how"], params["mn"]
    inc = f"c04loc_{how}.mac"
    write_aux_file("c04", inc, {"end": "1: nop\nnop\n.end\n1: nop\n", "once-second": ".once\n1: nop\nnop\n", "plain": "1: nop\nnop\n"}[how])
    main = os.path.join(BUILD, "aux", "c04", f"mainloc_{how}_{mn}.mac")
    first = f'.include "{inc}"\n' if how == "once-second" else ""
    pad = ".word 0\n" * k
    insn = "sob r2, 1" if mn == "sob" else "br 1"
    text = ".link {B}\n" + first + "G: nop\n1: nop\n" + f'.include "{inc}"\n' + pad + insn + "\n"
    o = assemble([(main, text)], vals, route=ctx.route, order=["B", "K"])
    ctx.observe_outcome(o)
    ctx.reach(o.status == "ok")
    if o.status != "ok" or o.errors:
        return False
    pre = 4 if how == "once-second" else 0            # the first inclusion contributes its two words
    inc_len = 0 if how == "once-second" else 4         # the second one nothing
    off = pre + 4 + inc_len + 2 * k                     # where the branch stands
    target = pre + 2                                    # the parent's '1:'
    v2 = dict(vals)
    v2["OFF"] = target - (off + 2)
    expect = ([{"kind": "r", "reg": 2}] if mn == "sob" else []) + [{"kind": "disp", "offvar": "OFF"}]
    return c01.decode_matches(isa, mn, expect, o.code[off:off + 2], b + off, v2)


def obligations(tier, seed):
    obs = []
    mns = BRANCHES + ["sob"]
    # ---- inside an included file, at a symbolic (realised) distance from the parent's label, base known or not yet known
    inc_cases = [
        ("br", "br ext", 2, [{"kind": "disp", "offvar": "OFF"}]),
        ("sob", "sob r3, ext", 2, [{"kind": "r", "reg": 3}, {"kind": "disp", "offvar": "OFF"}]),
        ("rel", "mov ext, r0", 4, [{"kind": "g", "mode": 6, "reg": 7, "ext": "pcrel", "x": "T"}, {"kind": "g", "mode": 0, "reg": 0, "ext": None}]),
        ("reldef", "clr @ext", 4, [{"kind": "g", "mode": 7, "reg": 7, "ext": "pcrel", "x": "T"}]),
        ("rel-second", "mov #5, ext", 6, [{"kind": "g", "mode": 2, "reg": 7, "ext": "value", "x": "FIVE"}, {"kind": "g", "mode": 6, "reg": 7, "ext": "pcrel", "x": "T"}]),
    ]
    for tag, insn, ilen, expect in inc_cases:
        for lp in ("start", "end"):
            mn = insn.split()[0]
            obs.append(Ob(oid=f"include/{tag}/link-{lp}", harness="pdpverif.props.c04:h_include",
                          params={"tag": f"{tag}_{lp}", "insn": insn, "insn_len": ilen, "mn": mn, "expect": expect, "link_pos": lp},
                          vars={"B": "int", "K": "int"}, timeout=300, per_path=90, note=f"ext:: nop / <K words> / .include {{ {insn} }}"))
    # ---- numeric local labels whose spelling and octal value differ (10 is not 8, 017 is not 15.)
    for mn in ("br", "bne", "sob"):
        op = "%{R}, " if mn == "sob" else ""
        for name, other in (("10", "8"), ("12", "10."), ("017", "15"), ("100", "64")):
            text = f".link {{B}}\nG: nop\n{other}$: nop\n{name}: nop\n{mn} {op}{name}\n"
            obs.append(_br(mn, f"numeric-local-{name}", text, 6, 8, {"OFF": {"c": -4}}))
    # ---- 'numeric local label + bare octal offset': only the first number is a label, even when a label spelled like the offset exists
    for mn in ("br", "bne", "sob"):
        op = "%{R}, " if mn == "sob" else ""
        for k, extra in ((2, ""), (4, ""), (4, "4: "), (10, "10: ")):
            text = f".link {{B}}\nG: .word 0\n1: .word 0\n{extra}.blkb 20\n{mn} {op}1 + {k}\n"
            kv = int(str(k), 8)
            obs.append(_br(mn, f"local+octal-{k}" + ("-label-exists" if extra else ""), text, 20, 22, {"OFF": {"c": 2 + kv - 22}}))
        text = f".link {{B}}\nG: .word 0\n1: .word 0\n2: .blkb 20\n{mn} {op}2 - 1 + 1\n"     # 'label 2' minus ONE plus ONE
        obs.append(_br(mn, "local-octal+octal", text, 20, 22, {"OFF": {"c": 4 - 22}}))
    for tag, insn, ilen, expect in (
            ("br", "br foo", 2, [{"kind": "disp", "offvar": "OFF"}]),
            ("bne", "bne foo", 2, [{"kind": "disp", "offvar": "OFF"}]),
            ("rel", "mov foo, r1", 4, [{"kind": "g", "mode": 6, "reg": 7, "ext": "pcrel", "x": "T"}, {"kind": "g", "mode": 0, "reg": 1, "ext": None}]),
            ("reldef", "clr @foo", 4, [{"kind": "g", "mode": 7, "reg": 7, "ext": "pcrel", "x": "T"}])):
        obs.append(Ob(oid=f"shadowed-export/{tag}", harness="pdpverif.props.c04:h_shadowed_target",
                      params={"insn": insn, "insn_len": ilen, "mn": insn.split()[0], "expect": expect}, vars={"B": "int", "K": "int"}, timeout=300, per_path=90,
                      note="o.mac: foo:: nop / .blkb 20 || a.mac: " + insn + " / <K words> / foo: nop"))
    # ---- a local label of the including file used after an include whose file stops early ('.end', second inclusion of a '.once' file)
    for mn in ("br", "sob"):
        for how in ("end", "once-second", "plain"):
            obs.append(Ob(oid=f"include-then-local/{mn}/{how}", harness="pdpverif.props.c04:h_include_then_local", params={"mn": mn, "how": how},
                          vars={"B": "int", "K": "int"}, timeout=300, per_path=90,
                          note="G: nop / 1: nop / .include { 1: nop / nop / [.end] } / <K words> / br 1"))
    for mn in mns:
        op = "%{R}, " if mn == "sob" else ""
        # 1. '.+D' : every integer D
        obs.append(_br(mn, "dot+D", f".link {{B}}\n{mn} {op}.+{{D}}\n", 0, 2, {"OFF": {"c": -2, "D": 1}}))
        if tier == "quick" and mn not in ("br", "bne", "blos", "bcs", "sob"):
            continue
        # 2. label before, L+K and L-K
        obs.append(_br(mn, "Lbefore+K", f".link {{B}}\nL: .blkb 6\n{mn} {op}L+{{K}}\n", 6, 8, {"OFF": {"c": -8, "K": 1}}))
        obs.append(_br(mn, "Lbefore-K", f".link {{B}}\nL: .blkb 6\n{mn} {op}L-{{K}}\n", 6, 8, {"OFF": {"c": -8, "K": -1}}))
        # 3. label after (forward reference)
        obs.append(_br(mn, "Lafter+K", f".link {{B}}\n{mn} {op}L+{{K}}\n.blkb 4\nL:\n", 0, 6, {"OFF": {"c": 4, "K": 1}}))
        # 4. via a symbol defined later
        obs.append(_br(mn, "sym-later", f".link {{B}}\n{mn} {op}T\nT = .+{{K}}\n", 0, 2, {"OFF": {"c": 0, "K": 1}}))
        # 5. numeric local label with fix-up ('1+K' means label 1 plus K)
        obs.append(_br(mn, "local+K", f".link {{B}}\nG: .word 0\n1: .word 0\n{mn} {op}1+{{K}}\n", 4, 6, {"OFF": {"c": -4, "K": 1}}))
        # 6. parenthesised number is a number, not a label
        obs.append(_br(mn, "abs-number", f".link {{B}}\n1: .word 0\n{mn} {op}({{K}})\n", 2, 4, {"OFF": {"c": -4, "K": 1, "B": -1}}))
    # 7. bare labels at concrete separations (real bytes in between), both directions
    seps = [0, 2, 4, 250, 252, 254, 256, 258] if tier == "thorough" else [0, 252, 254, 256]
    for mn in (mns if tier == "thorough" else ["br", "bne", "sob"]):
        op = "%{R}, " if mn == "sob" else ""
        for sep in seps + ([3, 255] if tier == "thorough" else [255]):
            # backward: L: <sep bytes> br L   -> offset = -(sep) - 2
            obs.append(_br(mn, f"back-sep{sep}", f".link {{B}}\nL: .blkb {sep}.\n{mn} {op}L\n", sep, sep + 2, {"OFF": {"c": -sep - 2}}))
            # forward: br L <sep bytes> L:   -> offset = sep
            obs.append(_br(mn, f"fwd-sep{sep}", f".link {{B}}\n{mn} {op}L\n.blkb {sep}.\nL:\n", 0, sep + 2, {"OFF": {"c": sep}}))
            # local label forms
            obs.append(_br(mn, f"local-back-sep{sep}", f".link {{B}}\nG:\n1$: .blkb {sep}.\n{mn} {op}1$\n", sep, sep + 2, {"OFF": {"c": -sep - 2}}))
    # ---- relative / relative-deferred operands in every position ---------------------------
    rel_layouts = [
        # (tag, mnemonic, operand texts, expect builder)
        ("clr-T", "clr", ["{T}"], [("rel", "T")]),
        ("clr-@T", "clr", ["@{T}"], [("reldef", "T")]),
        ("mov-T-U", "mov", ["{T}", "{U}"], [("rel", "T"), ("rel", "U")]),
        ("mov-imm-T", "mov", ["#{X}", "{T}"], [("imm", "X"), ("rel", "T")]),
        ("mov-idx-T", "mov", ["{X}(%{R})", "{T}"], [("idx", "X"), ("rel", "T")]),
        ("mov-reg-T", "mov", ["%{R}", "{T}"], [("reg", None), ("rel", "T")]),
        ("mov-T-idx", "mov", ["{T}", "{X}(%{R})"], [("rel", "T"), ("idx", "X")]),
        ("cmp-@T-@U", "cmp", ["@{T}", "@{U}"], [("reldef", "T"), ("reldef", "U")]),
        ("jsr-r-T", "jsr", ["%{R}", "{T}"], [("r", None), ("rel", "T")]),
        ("mul-T-r", "mul", ["{T}", "%{R}"], [("rel", "T"), ("r", None)]),
        ("ldf-T-ac", "ldf", ["{T}", "ac2"], [("rel", "T"), ("ac", 2)]),
        ("stf-ac-@T", "stf", ["ac1", "@{T}"], [("ac", 1), ("reldef", "T")]),
    ]
    modes = {"rel": (6, 7, "pcrel"), "reldef": (7, 7, "pcrel"), "imm": (2, 7, "value"), "idx": (6, "R", "value"), "reg": (0, "R", None)}
    for tag, mn, ops, exp in rel_layouts:
        for placement in ("first", "after-data"):
            expect = []
            for kind, var in exp:
                if kind in modes:
                    m, r, ext = modes[kind]
                    expect.append({"kind": "g", "mode": m, "reg": r, "ext": ext, "x": var})
                elif kind == "r":
                    expect.append({"kind": "r", "reg": "R"})
                elif kind == "ac":
                    expect.append({"kind": "ac", "value": var})
            n_ext = sum(1 for e in expect if e.get("ext"))
            pre = "" if placement == "first" else ".word 1, 2, 3\n"
            off = 0 if placement == "first" else 6
            text = f".link {{B}}\n{pre}{mn} {', '.join(ops)}\n.word 7\n"
            vars_ = {"B": "int"}
            rg = {"B": [0, 65535]}
            for v in ("T", "U", "X", "R"):
                if "{" + v + "}" in text:
                    vars_[v] = "int"
                    rg[v] = {"T": [-131071, 131071], "U": [-131071, 131071], "X": [-65535, 65535], "R": [0, 7]}[v]
            obs.append(Ob(oid=f"rel/{tag}/{placement}", harness=H,
                          params={"text": text, "insn_off": off, "insn_len": 2 + 2 * n_ext, "total_len": off + 2 + 2 * n_ext + 2, "mn": mn,
                                  "expect": expect, "derived": {}, "accept": None, "ranges": rg},
                          vars=vars_, timeout=200, per_path=60, note=text.replace("\n", " / ")))
    # relative operand whose target is a label +- K (address-valued target, LinearPolynomial path)
    for tag, text, off, ilen, total, derived in [
        ("clr-L+K", ".link {B}\nL: .word 0\nclr L+{K}\n", 2, 4, 6, {"T": {"B": 1, "K": 1}}),
        ("mov-imm-Lfwd-K", ".link {B}\nmov #{X}, L-{K}\nL:\n", 0, 6, 6, {"T": {"B": 1, "c": 6, "K": -1}}),
        ("mov-dot-dot", ".link {B}\n.word 0\nmov ., .+{K}\n", 2, 6, 8, {"T": {"B": 1, "c": 2}, "U": {"B": 1, "c": 2, "K": 1}}),
    ]:
        if tag == "mov-dot-dot":
            expect = [{"kind": "g", "mode": 6, "reg": 7, "ext": "pcrel", "x": "T"}, {"kind": "g", "mode": 6, "reg": 7, "ext": "pcrel", "x": "U"}]
            mn = "mov"
        elif tag.startswith("mov-imm"):
            expect = [{"kind": "g", "mode": 2, "reg": 7, "ext": "value", "x": "X"}, {"kind": "g", "mode": 6, "reg": 7, "ext": "pcrel", "x": "T"}]
            mn = "mov"
        else:
            expect = [{"kind": "g", "mode": 6, "reg": 7, "ext": "pcrel", "x": "T"}]
            mn = "clr"
        vars_ = {"B": "int", "K": "int"}
        rg = {"B": [0, 65535], "K": [-131071, 131071]}
        if "{X}" in text:
            vars_["X"] = "int"
            rg["X"] = [-65535, 65535]
        obs.append(Ob(oid=f"rel/{tag}", harness=H,
                      params={"text": text, "insn_off": off, "insn_len": ilen, "total_len": total, "mn": mn, "expect": expect,
                              "derived": derived, "accept": None, "ranges": rg},
                      vars=vars_, timeout=200, per_path=60, note=text.replace("\n", " / ")))
    return obs
