"""C19  The listing agrees with the image."""
import os
import re

from ..common import require, concretize, notrace, BUILD
from ..obligations import Ob
from ..symasm import assemble, write_aux_file

AUX = os.path.join(BUILD, "aux", "c19")
from .. import cli_harness as CH

P = "pdpverif.props.c19:"

META = {
    "claim": "generate_listing() names every source file once and under it every ordinary symbol of that file exactly once, lines ordered by "
             "(value, name), each value field (optional sign, >= 6 octal digits) parsing back to the symbol's final value; a listed label is the "
             "address of the byte that follows it in the image; --lst writes <first output minus its format suffix>.lst beside the first output",
    "technique": "CrossHair symbolic execution of Compiler.generate_listing and of main_cli's listing branch with symbolic symbol values, label "
                 "distances and link base; z3 decides membership, order and number rendering for all values in the stated windows",
    "bounds": "2..4 symbols in 1..2 files; ordering: three symbols with values in -2..2 (thorough -3..3; four symbols in -1..1) (every tie and inversion); rendering: one symbol over "
              "[-300, 300] (quick [-70, 70]), [2^16-16, 2^16+16], [2^18-4, 2^18+4] (oct() is realised by CrossHair); label distances 0..2 (thorough 0..3); base 0..2 and 510..513",
    "outside": ["values outside the rendering windows", "more than 4 symbols per file"],
    "structure": "constants and labels, one and two files, local labels (must not be listed), output selectors -o *.bin / -o raw / --implicit-bin / "
                 "make_bin / none; paths and source names with further dots; symbol names with dots; three linked files",
    "stubs": ["CLI path obligations use the recording stubs of pdpverif/cli_harness.py"],
}

LINE = re.compile(r"^(-?)([0-7]{6,}) (\S+)$")


def parse_listing(text):
    """-> {filename: [(value, name), ...]} ; raises ValueError on a malformed line."""
    out, cur = {}, None
    for line in text.split("\n"):
        if line == "":
            cur = None
            continue
        if cur is None:
            if line in out:
                raise ValueError("file listed twice: " + line)
            cur = out.setdefault(line, [])
            continue
        m = LINE.match(line)
        if not m:
            raise ValueError("malformed line: " + repr(line))
        v = int(m.group(2), 8)
        cur.append((-v if m.group(1) else v, m.group(3)))
    return out


def h_render(params, vals, ctx):
    v = vals["V"]
    lo, hi = params["window"]
    require(lo <= v <= hi)
    v = concretize(v)
    vals = {**vals, "V": v}
    o = assemble([("/w/a.mac", "sym = {V}\n.byte 1\n")], vals, route=ctx.route)
    ctx.observe_outcome(o)
    ctx.reach(o.status == "ok")
    if o.status != "ok":
        return False
    with notrace():
        text = o.comp.generate_listing()
        try:
            lst = parse_listing(text)
        except ValueError:
            return False
        return lst == {"/w/a.mac": [(v, "sym")]}


def h_order(params, vals, ctx):
    names = params["names"]
    vs = [vals[f"V{i + 1}"] for i in range(len(names))]
    for v in vs:
        require(-params.get("span", 2) <= v <= params.get("span", 2))
    vs = [concretize(v) for v in vs]
    vals = {f"V{i + 1}": v for i, v in enumerate(vs)}
    lines = [f"{n} = {{V{i + 1}}}" for i, n in enumerate(names)]
    files = [("/w/a.mac", "\n".join(lines) + "\n1: .byte 1\n")]
    if params.get("second"):
        files.append(("/w/b.mac", "zz = 5\naa = 5\n2: .byte 2\n"))
    o = assemble(files, vals, route=ctx.route)
    ctx.observe_outcome(o)
    ctx.reach(o.status == "ok")
    if o.status != "ok":
        return False
    with notrace():
        text = o.comp.generate_listing()
        try:
            lst = parse_listing(text)
        except ValueError:
            return False
        exp = {"/w/a.mac": sorted(zip(vs, names), key=lambda t: (t[0], t[1]))}
        if params.get("second"):
            exp["/w/b.mac"] = [(5, "aa"), (5, "zz")]
        if list(lst.keys()) != list(exp.keys()):
            return False
        return lst == exp


def h_labels(params, vals, ctx):
    """A listed label address is where the byte following the label lies in the image."""
    b, n, k = vals["B"], vals["N"], vals["K"]
    require(0 <= b <= 2 or 510 <= b <= 513)  # the listing renders addresses with oct(): one path per value
    require(0 <= n <= params.get("dmax", 2) and 0 <= k <= params.get("dmax", 2))
    if params.get("late"):
        require(b % 2 == 0)
    text = ".link {B}\nfirst: .byte 101\n.blkb {N}\nsecond: .byte 102\n1: .byte 7\nC = second - first\n. = . + {K}\nthird:: .byte 103\n"
    if params.get("late"):
        # base unknown while compiling; operand-less data directives announce their size before their content exists
        text = "first: .byte 101\n.blkb {N}\nsecond: .byte 102\n1: .byte 7\nC = second - first\n.blkb {K}\n.even\n.word\n.byte\nthird:: .byte 103\n.link {B}\n"
    n, k, b = concretize(n), concretize(k), concretize(b)  # rendered with oct() anyway: one path per value
    vals = {"B": b, "N": n, "K": k}
    o = assemble([("/w/a.mac", text)], vals, route=ctx.route)
    ctx.observe_outcome(o)
    ctx.reach(o.status == "ok")
    if o.status != "ok" or o.errors:
        return False
    with notrace():
        text = o.comp.generate_listing()
        try:
            lst = parse_listing(text)
        except ValueError:
            return False
        code = bytes(o.code)
        if list(lst) != ["/w/a.mac"]:
            return False
        entries = dict((nm, v) for v, nm in lst["/w/a.mac"])
        if sorted(entries) != ["C", "first", "second", "third"] or len(lst["/w/a.mac"]) != 4:
            return False
        if entries["C"] != n + 1:
            return False
        if params.get("late") and b % 2:
            return False  # unreachable: odd bases are excluded for the late variant (word data)
        for nm, marker in (("first", 0o101), ("second", 0o102), ("third", 0o103)):
            off = entries[nm] - b
            if not (0 <= off < len(code)) or code[off] != marker:
                return False
        vals_sorted = [v for v, _ in lst["/w/a.mac"]]
        return vals_sorted == sorted(vals_sorted)


def h_labels3(params, vals, ctx):
    """Three linked files: a listed label address is where the byte following the label lies in the image, in every file."""
    b, n, k = vals["B"], vals["N"], vals["K"]
    require(b in (0, 2, 510, 512))
    require(0 <= n <= 2 and 0 <= k <= 2)
    n, k, b = concretize(n), concretize(k), concretize(b)
    vals = {"B": b, "N": n, "K": k}
    late = params.get("late")
    files = [("/w/a.mac", ("" if late else ".link {B}\n") + "fa: .byte 101, 1\n.blkb {N}\n.asciz \"ab\"\nga: .byte 111\n"),
             ("/w/b.mac", "vv = 5\nfb: .byte 102\n.blkb {K}\n.even\nvv\n.ascii \"xyz\"\ngb: .byte 112, 2\n"),
             ("/w/c.mac", "fc: .byte 103, 3\ngc: .byte 113\n" + (".link {B}\n" if late else ""))]
    o = assemble(files, vals, route=ctx.route)
    ctx.observe_outcome(o)
    ctx.reach(o.status == "ok")
    if o.status != "ok" or o.errors:
        return False
    with notrace():
        try:
            lst = parse_listing(o.comp.generate_listing())
        except ValueError:
            return False
        code = bytes(o.code)
        if list(lst) != ["/w/a.mac", "/w/b.mac", "/w/c.mac"]:
            return False
        for fn, marks in (("/w/a.mac", {"fa": 0o101, "ga": 0o111}), ("/w/b.mac", {"fb": 0o102, "gb": 0o112}), ("/w/c.mac", {"fc": 0o103, "gc": 0o113})):
            entries = dict((nm, v) for v, nm in lst[fn] if nm != "vv")
            if sorted(entries) != sorted(marks) or len(lst[fn]) != 2 + (fn == "/w/b.mac"):
                return False
            for nm, marker in marks.items():
                off = entries[nm] - b
                if not (0 <= off < len(code)) or code[off] != marker:
                    return False
        return True


def h_labels_many(params, vals, ctx):
    """Twelve compilation units (linked files, one of them including two more): every symbol is listed under its own file."""
    b = vals["B"]
    require(b in (0, 512, 1000))
    b = concretize(b)
    vals = {"B": b}
    write_aux_file("c19", "inc_a.mac", "ia: .byte 201.\n")
    write_aux_file("c19", "inc_b.mac", "ib: .byte 202.\n")
    n = params["n"]
    files = []
    for i in range(n):
        text = f"f{i}: .byte {i + 1}.\n"
        if i == 0:
            text = ".link {B}\n" + text
        if i == 1:
            text += '.include "inc_a.mac"\n.include "inc_b.mac"\n'
        files.append((os.path.join(AUX, f"u{i}.mac"), text))
    o = assemble(files, vals, route=ctx.route)
    ctx.observe_outcome(o)
    ctx.reach(o.status == "ok")
    if o.status != "ok" or o.errors:
        return False
    with notrace():
        try:
            lst = parse_listing(o.comp.generate_listing())
        except ValueError:
            return False
        code = bytes(o.code)
        want = {os.path.join(AUX, f"u{i}.mac"): {f"f{i}": i + 1} for i in range(n)}
        want[os.path.join(AUX, "inc_a.mac")] = {"ia": 201}
        want[os.path.join(AUX, "inc_b.mac")] = {"ib": 202}
        if sorted(lst) != sorted(want):
            return False
        for fn, marks in want.items():
            entries = dict((nm, v) for v, nm in lst[fn])
            if sorted(entries) != sorted(marks):
                return False
            for nm, marker in marks.items():
                off = entries[nm] - b
                if not (0 <= off < len(code)) or code[off] != marker:
                    return False
        return True


SRC = "/w/src/prog.mac"


def h_lstpath(params, vals, ctx):
    """Through the real main_cli: where the listing goes and what it contains."""
    x = vals["X"]
    require(-20 <= x <= 20)
    sel = params["selector"]
    kw, text = {}, "val = {X}\nlbl: .byte 1\n"
    if sel == "o-bin":
        kw["outfile"] = "/w/out/image.bin"
    elif sel == "o-BIN":
        kw["outfile"] = "/w/out/IMAGE.BIN"
    elif sel == "o-raw":
        kw["outfile"] = "/w/out/image.rom"
    elif sel == "implicit":
        kw["implicit_bin"] = True
    elif sel == "make_bin":
        text = 'make_bin "out/made.bin"\n' + text
    elif sel == "make_raw+make_bin":
        text = 'make_raw "first.dat"\nmake_bin "second.bin"\n' + text
    elif sel == "make+o":
        text = 'make_raw "first.dat"\n' + text
        kw["outfile"] = "/w/out/image.bin"
    src_path = SRC
    if sel == "o-dotted-dir":
        kw["outfile"] = "/w/build.v2/prog.bin"
    elif sel == "o-dotted-name":
        kw["outfile"] = "/w/out/prog.v2.bin"
    elif sel == "make_raw-dotted-dir":
        text = 'make_raw "out.d/image.raw"\n' + text
    elif sel == "make_bin-dotted-src":
        text = 'make_bin\n' + text
        src_path = "/w/src.d/game.v2.mac"
    elif sel == "implicit-dotted-src":
        kw["implicit_bin"] = True
        src_path = "/w/src.d/game.v2.mac"
    from ..symasm import render, inject
    import pdpy11.parser as PP
    order = ["X"]
    src = render(text, order, vals, ctx.route)
    real_parse = PP.parse

    def parse_fn(path, t):
        with notrace():
            ast = real_parse(path, t)
            if ctx.route == "inject":
                inject(ast, order, vals)
        return ast

    r = CH.run_cli([src_path], {src_path: src}, lst=True, report_format="bare", parse_fn=parse_fn, **kw)
    ctx.observe(r.exit, r.writes, r.crash)
    ctx.reach(r.exit is None)
    if r.crash is not None or r.exit is not None:
        return False
    want = {
        "none": None, "o-bin": "/w/out/image.lst", "o-BIN": "/w/out/IMAGE.BIN.lst", "o-raw": "/w/out/image.rom.lst", "implicit": "/w/src/prog.lst",
        "make_bin": "/w/src/out/made.lst", "make_raw+make_bin": "/w/src/first.dat.lst", "make+o": "/w/out/image.lst",
        "o-dotted-dir": "/w/build.v2/prog.lst", "o-dotted-name": "/w/out/prog.v2.lst", "make_raw-dotted-dir": "/w/src/out.d/image.lst",
        "make_bin-dotted-src": "/w/src.d/game.v2.lst", "implicit-dotted-src": "/w/src.d/game.v2.lst",
    }[sel]
    lsts = [w for w in r.writes if w[1] == "w"]
    if want is None:
        return lsts == [] and r.writes == []
    if len(lsts) != 1 or lsts[0][0] != want:
        return False
    if r.writes[-1] is not lsts[0]:
        return False  # the listing is written after the outputs
    with notrace():
        pass
    try:
        lst = parse_listing(lsts[0][2])
    except ValueError:
        return False
    return lst == {src_path: sorted([(x, "val"), (0o1000, "lbl")], key=lambda t: (t[0], t[1]))}


def obligations(tier, seed):
    obs = []
    for nm, win in (("small", [-300, 300] if tier == "thorough" else [-70, 70]), ("16bit", [65536 - 16, 65536 + 16]), ("18bit", [2 ** 18 - 4, 2 ** 18 + 4]), ("neg16", [-65536 - 8, -65536 + 8])):
        obs.append(Ob(oid=f"render/{nm}", harness=P + "h_render", params={"window": win}, vars={"V": "int"}, timeout=900))
    obs.append(Ob(oid="order/3", harness=P + "h_order", params={"names": ["mid", "Alpha", "zed"], "span": 3 if tier == "thorough" else 2}, vars={"V1": "int", "V2": "int", "V3": "int"}, timeout=1200))
    obs.append(Ob(oid="order/2+file2", harness=P + "h_order", params={"names": ["b", "a"], "second": True}, vars={"V1": "int", "V2": "int"}, timeout=600))
    obs.append(Ob(oid="order/dotted-names", harness=P + "h_order", params={"names": ["tab.end", "x.init", "io.buf.len"], "span": 1},
                  vars={"V1": "int", "V2": "int", "V3": "int"}, timeout=600))
    for late in (False, True):
        obs.append(Ob(oid="labels/three-files" + ("/late-link" if late else ""), harness=P + "h_labels3", params={"late": late}, vars={"B": "int", "N": "int", "K": "int"}, timeout=900))
    obs.append(Ob(oid="labels/twelve-units", harness=P + "h_labels_many", params={"n": 12}, vars={"B": "int"}, timeout=600))
    if tier == "thorough":
        obs.append(Ob(oid="order/4", harness=P + "h_order", params={"names": ["d", "b", "a", "c"], "span": 1}, vars={f"V{i}": "int" for i in range(1, 5)}, timeout=3000))
    obs.append(Ob(oid="labels", harness=P + "h_labels", params={"dmax": 3 if tier == "thorough" else 2}, vars={"B": "int", "N": "int", "K": "int"},
                  timeout=3000 if tier == "thorough" else 900))
    obs.append(Ob(oid="labels/late-link", harness=P + "h_labels", params={"dmax": 2, "late": True}, vars={"B": "int", "N": "int", "K": "int"}, timeout=900))
    for sel in ("none", "o-bin", "o-BIN", "o-raw", "implicit", "make_bin", "make_raw+make_bin", "make+o",
                "o-dotted-dir", "o-dotted-name", "make_raw-dotted-dir", "make_bin-dotted-src", "implicit-dotted-src"):
        obs.append(Ob(oid=f"lstpath/{sel}", harness=P + "h_lstpath", params={"selector": sel}, vars={"X": "int"}, timeout=600))
    return obs
