"""C05  Expression values follow the documented arithmetic."""
import itertools
import random

from ..common import require
from ..obligations import Ob
from ..symasm import assemble

H = "pdpverif.props.c05:h_expr"
HC = "pdpverif.props.c05:h_char"
HL = "pdpverif.props.c05:h_literal_table"

INFIX = ["+", "-", "*", "/", "%", "<<", ">>", "_", "&", "^", "|", "!"]
PREFIX = ["+", "-", "~", "^C"]
SHIFTS = {"<<", ">>", "_"}
BITS = {"&", "^", "|", "!"}

META = {
    "claim": "the value of 'X = <expr>' equals the reference evaluation (unbounded ints, floor / and %, C-like precedence, left associativity, "
             "three grouping styles) for all operand values; /0, %0 and negative << >> counts fail with arithmetic-error",
    "technique": "CrossHair symbolic execution of parser-built operator trees through operators.resolve/Deferred/LinearPolynomial; z3 decides "
                 "equality with an independent precedence-climbing evaluator",
    "bounds": "character literals: quick = code points 0..0xFF and 0x7C0..0x83F (both UTF-8 length boundaries), thorough = whole range; operands of + - * / % and unary operators: unbounded integers; variables under a shift count: -5..5 (2**b is realised); operands "
              "of & ^ | !: -8..7 (two bitwise variables) or -2..1 (three); expression depth <= 3 (quick) / <= 5 (thorough, seeded)",
    "outside": ["two-character literals with astral (>= U+10000) characters: CrossHair's utf-8 model disagrees with CPython there (found by the replay, "
                "not a pdpy11 issue); latin-1 characters above U+017F",
                "how literal spellings are lexed (bare octal, trailing dot, 0x/0o/0b, ^X ^O ^B ^D, 8/9 rejection, ^R): the digits are concrete "
                "text for the regex parser; covered only by the concrete table obligation 'literals/table' (reported as a concrete side check)",
                "expression depth above the stated bound"],
    "structure": "every operator alone x 5 operand kinds; all 144 infix pairs; 96 prefix/infix combinations; grouping styles () <> ^x..x on both "
                 "sides; seeded deeper trees; one statement at several addresses ('.repeat 3 { .word (. + A) op C }'); operands defined further down while an earlier file exports the same names",
    "stubs": [],
}


def _ee():
    from ref import expr_eval
    return expr_eval


def tree_vars(tree, out=None):
    out = [] if out is None else out
    if tree[0] == "leaf":
        if isinstance(tree[1], str) and tree[1] not in out:
            out.append(tree[1])
    elif tree[0] == "pre":
        tree_vars(tree[2], out)
    else:
        tree_vars(tree[2], out)
        tree_vars(tree[3], out)
    return out


def var_ranges(tree):
    """Ranges that keep realised operations (2**b, & ^ |) small. None = unbounded."""
    rng = {}

    def tighten(v, lo, hi):
        a, b = rng.get(v, (None, None))
        rng[v] = (lo if a is None else max(a, lo), hi if b is None else min(b, hi))

    nbit = [0]

    def walk(t):
        if t[0] == "bin":
            if t[1] in SHIFTS:
                for v in tree_vars(t[3]):
                    tighten(v, -5, 5)
                for v in tree_vars(t[2]):
                    tighten(v, -1000, 1000)
            if t[1] in BITS:
                nbit[0] += 1
            walk(t[2])
            walk(t[3])
        elif t[0] == "pre":
            walk(t[2])

    walk(tree)
    if nbit[0]:
        # every variable below a bitwise operator is realised
        def under(t, inside):
            if t[0] == "leaf":
                if inside and isinstance(t[1], str):
                    tighten(t[1], *((-8, 7) if len(tree_vars(tree)) <= 2 else (-2, 1)))
            elif t[0] == "pre":
                under(t[2], inside)
            else:
                ins = inside or t[1] in BITS
                under(t[2], ins)
                under(t[3], ins)
        under(tree, False)
    return rng


LEAF_KINDS = ["const", "sym-before", "sym-after", "dot", "label"]


def build_program(tokens, kinds):
    """-> (text, address-valued leaves {name: byte offset}, needs_base)"""
    ee = _ee()
    tree = ee.parse(tokens)
    vs = tree_vars(tree)
    var_text, before, after, addr = {}, [], [], {}
    labels_before = []
    for v in vs:
        k = kinds.get(v, "const")
        if k == "const":
            var_text[v] = "{%s}" % v
        elif k == "sym-before":
            before.append(f"s{v.lower()} = {{{v}}}")
            var_text[v] = "s" + v.lower()
        elif k == "sym-after":
            after.append(f"s{v.lower()} = {{{v}}}")
            var_text[v] = "s" + v.lower()
        elif k == "dot":
            var_text[v] = "."
            addr[v] = "dot"
        elif k == "label":
            var_text[v] = "L" + v.lower()
            addr[v] = "label"
    needs_base = bool(addr)
    lines = []
    if needs_base:
        lines.append(".link {B}")
    lines += before
    off = 0
    if needs_base:
        # no label and no '.' exactly at the link base: an address there is a bare base promise, a special case of the general
        # 'base + offset' polynomial that hides whatever happens to the offset
        lines.append(".blkb 6")
        off = 6
    # labels: one before the expression (offset 0 + 2 bytes of data), others after
    lab_off = {}
    for i, (v, k) in enumerate(addr.items()):
        if k == "label" and i % 2 == 0:
            lines.append(f"L{v.lower()}: .word 0")
            lab_off[v] = off
            off += 2
    dot_off = off
    lines.append("X = " + ee.render(tokens, var_text))
    for i, (v, k) in enumerate(addr.items()):
        if k == "label" and i % 2 == 1:
            lines.append(".word 0")
            off += 2
            lines.append(f"L{v.lower()}:")
            lab_off[v] = off
    lines += after
    offs = {v: (dot_off if k == "dot" else lab_off[v]) for v, k in addr.items()}
    return "\n".join(lines) + "\n", offs, needs_base


def h_expr(params, vals, ctx):
    ee = _ee()
    tokens, kinds = params["tokens"], params.get("kinds", {})
    tree = ee.parse(tokens)
    text, offs, needs_base = build_program(tokens, kinds)
    rng = var_ranges(tree)
    for v, (lo, hi) in rng.items():
        if v in vals:
            require(lo <= vals[v] <= hi)
    env = dict(vals)
    if needs_base:
        require(0 <= vals["B"] < 65536 and vals["B"] % 2 == 0)
        for v, off in offs.items():
            env[v] = vals["B"] + off
    try:
        expected = ee.evaluate(tree, env)
        err = False
    except ee.ArithError:
        expected, err = None, True
    o = assemble([("a.mac", text)], vals, route=ctx.route)
    ctx.observe_outcome(o)
    ctx.reach(o.status == "ok" or (params.get("reach_any") and o.status == "failed"))
    if err:
        return o.status == "failed" and "arithmetic-error" in o.error_ids
    if o.status != "ok" or o.errors:
        return False
    return o.symbol("X") == expected


def h_repeat_dot(params, vals, ctx):
    """One statement evaluated at several addresses: an expression over '.' inside '.repeat' gets the value of '.' of each copy."""
    ee = _ee()
    op, n = params["op"], params["n"]
    a, c, b = vals["A"], vals["C"], vals["B"]
    small = op in ("<<", "_", "*")
    require(0 <= b < (4000 if small else 60000) and b % 2 == 0)
    require(-1000 <= a <= 1000)
    if op in SHIFTS:
        require(0 <= c <= 3)
    else:
        require(1 <= c <= (8 if small else 1000))
    tokens = ["(", "D", "+", "A", ")", op, "C"]
    tree = ee.parse(tokens)
    expr = ee.render(tokens, {"D": ".", "A": "{A}", "C": "{C}"})
    text = ".link {B}\n.repeat %d {\n.word %s\n}\n.word 0\n.word %s\n" % (n, expr, expr)
    o = assemble([("a.mac", text)], vals, route=ctx.route)
    ctx.observe_outcome(o)
    ctx.reach(o.status == "ok")
    if o.status != "ok" or o.errors or len(o.code) != 2 * n + 4:
        return False
    for k in list(range(n)) + [n + 1]:
        want = ee.evaluate(tree, {"D": b + 2 * k, "A": a, "C": c})
        if not (o.code[2 * k] + 256 * o.code[2 * k + 1] == want % 65536):
            return False
    return True


def h_dot_after_skip(params, vals, ctx):
    """'.' in an assignment that directly follows a location-counter assignment is the NEW location."""
    a, b, c = vals["A"], vals["B"], vals["C"]
    require(0 <= b < 60000 and 0 <= c <= 20 and -1000 <= a <= 1000)
    text = {"rel": ".link {B}\n.byte 1\n. = . + {C}\nX = . + {A}\nY = X - .\n.byte 2\n",
            "abs": ".link {B}\n.byte 1\n. = {B} + 1 + {C}\nX = . + {A}\nY = X - .\n.byte 2\n",
            "twice": ".link {B}\n.byte 1\n. = . + {C}\n. = . + 3\nX = . + {A}\nY = X - .\n.byte 2\n"}[params["kind"]]
    o = assemble([("a.mac", text)], vals, route=ctx.route)
    ctx.observe_outcome(o)
    ctx.reach(o.status == "ok")
    if o.status != "ok" or o.errors:
        return False
    here = b + 1 + c + (3 if params["kind"] == "twice" else 0)
    return o.symbol("X") == here + a and o.symbol("Y") == a and len(o.code) == here - b + 1


def h_shadow(params, vals, ctx):
    """An operand symbol defined further down in the same file, while a file linked earlier exports the same name: the expression
    is evaluated over the file's own definition."""
    a, b, c = vals["A"], vals["B"], vals["C"]
    op = params["op"]
    if op in ("/", "%"):
        require(b != 0)
    ee = _ee()
    tree = ee.parse(["A", op, "B"])
    o = assemble([("o.mac", "sb == {C}\nsa == {C} + 1\n"), ("a.mac", "X = sa %s sb\nsa = {A}\nsb = {B}\n" % op)], vals, route=ctx.route)
    ctx.observe_outcome(o)
    ctx.reach(o.status == "ok")
    if o.status != "ok" or o.errors:
        return False
    return o.symbol("X", 2) == ee.evaluate(tree, {"A": a, "B": b})


def h_char(params, vals, ctx):
    """'c and \"cc literals pack little-endian in the output charset."""
    n = params["n"]
    cs = params.get("charset", "utf-8")
    fixed = params.get("fixed") or [None, None]
    parts = [fixed[1] if i == fixed[0] else vals[f"S_{i + 1}"] for i in range(n)]
    for i, ch in enumerate(parts):
        if i == fixed[0]:
            continue
        require(len(ch) == 1)
        require(ch not in "\t\r\n")  # unterminated-string: a different (parser) diagnostic
        require(ord(ch) < 0xD800 or 0xE100 <= ord(ch))  # surrogates cannot be encoded; private markers reserved
        require(ord(ch) < params.get("max_cp", 0x110000))
        if params.get("windows"):
            require(ord(ch) < 0x100 or 0x7C0 <= ord(ch) < 0x840)
    s = parts[0] if n == 1 else parts[0] + parts[1]
    quote = "'" if n == 1 else '"'
    text = f"X = {quote}" + "".join("{S_%d}" % (i + 1) for i in range(n)) + "\n"
    if params.get("fixed"):
        pos, ch = params["fixed"]
        text = text.replace("{S_%d}" % (pos + 1), ch)
    o = assemble([("a.mac", text)], vals, route=ctx.route, charset=cs)
    ctx.observe_outcome(o)
    ctx.reach(o.status in ("ok", "failed"))
    try:
        b = s.encode(cs)
    except UnicodeEncodeError:
        return o.status == "failed" and "invalid-character" in o.error_ids
    if len(b) > 2:
        return o.status == "failed" and "too-long-string" in o.error_ids
    if o.status != "ok":
        return False
    b = b + b"\x00" * (2 - len(b))
    return o.symbol("X") == b[0] + 256 * b[1]


LITERALS = [
    ("17", 15), ("017", 15), ("17.", 17), ("0x1F", 31), ("0X1f", 31), ("0o17", 15), ("0O17", 15), ("0b101", 5), ("0B101", 5),
    ("^X1F", 31), ("^x1f", 31), ("^O17", 15), ("^o17", 15), ("^B101", 5), ("^b101", 5), ("^D19", 19), ("^d19", 19),
    ("-17", -15), ("-17.", -17), ("-0x10", -16), ("-^D8", -8), ("0", 0), ("7", 7), ("10", 8), ("177777", 65535),
    ("^RABC", 1683), ("^R$.%", 27 * 1600 + 28 * 40 + 29), ("^R9", 39 * 1600), ("^Rabc", 1683),
    ("'A", 65), ("\"AB", 65 + 66 * 256), ("'\\n", 10),
]
BAD_LITERALS = [("18", "invalid-number"), ("9", "invalid-number"), ("1289", "invalid-number"), ("-8", "invalid-number")]


def h_literal_table(params, vals, ctx):
    """Concrete side check (no symbolic input can reach the regex parser): literal spellings.
    The symbolic variable K only offsets the value so that the obligation still has a solver verdict."""
    k = vals["K"]
    require(-1000 <= k <= 1000)
    ok = True
    for text, value in LITERALS:
        o = assemble([("a.mac", f"X = {text} + {{K}}\n")], vals, route=ctx.route, charset="utf-8")
        ctx.observe_outcome(o)
        if o.status != "ok" or not (o.symbol("X") == value + k):
            return False
    for text, ident in BAD_LITERALS:
        o = assemble([("a.mac", f"X = {text} + {{K}}\n")], vals, route=ctx.route)
        if o.status != "failed" or ident not in o.error_ids:
            return False
    return ok


def _ob(tag, tokens, kinds=None, timeout=240):
    ee = _ee()
    tree = ee.parse(tokens)
    vs = tree_vars(tree)
    kinds = kinds or {}
    vars_ = {v: "int" for v in vs if kinds.get(v, "const") in ("const", "sym-before", "sym-after")}
    if any(k in ("dot", "label") for k in kinds.values()):
        vars_["B"] = "int"
    text, _, _ = build_program(tokens, kinds)
    return Ob(oid=tag, harness=H, params={"tokens": tokens, "kinds": kinds}, vars=vars_, timeout=timeout, per_path=60,
              note=text.replace("\n", " / "), pre=f"ranges {var_ranges(tree)} else unbounded")


def obligations(tier, seed):
    rnd = random.Random(seed)
    obs = []
    # (i) every operator alone, every operand kind
    for op in INFIX:
        obs.append(_ob(f"single/{op}/const", ["A", op, "B"]))
        for ka, kb in [("sym-before", "sym-after"), ("sym-after", "const")]:
            obs.append(_ob(f"single/{op}/{ka}+{kb}", ["A", op, "B"], {"A": ka, "B": kb}))
        # address-valued operands (LinearPolynomial path): label/dot on the left, constant on the right
        if op not in BITS:
            obs.append(_ob(f"single/{op}/label+const", ["A", op, "B"], {"A": "label"}))
            obs.append(_ob(f"single/{op}/dot+const", ["A", op, "B"], {"A": "dot"}))
        if op in ("+", "-", "*"):
            obs.append(_ob(f"single/{op}/const+label", ["A", op, "B"], {"B": "label"}))
    obs.append(_ob("single/-/label-label", ["A", "-", "B"], {"A": "label", "B": "label"}))
    obs.append(_ob("single/label-diff-scaled", ["C", "*", "(", "A", "-", "B", ")"], {"A": "label", "B": "label"}))
    obs.append(_ob("single/label-diff-div", ["(", "A", "-", "B", ")", "/", "C"], {"A": "label", "B": "label"}))
    for op in PREFIX:
        obs.append(_ob(f"prefix/{op}/const", [op, "A"]))
        obs.append(_ob(f"prefix/{op}/sym-after", [op, "A"], {"A": "sym-after"}))
        if op in ("+", "-"):
            obs.append(_ob(f"prefix/{op}/label", [op, "A"], {"A": "label"}))
    # (ii) all 144 ordered pairs
    for a, b in itertools.product(INFIX, INFIX):
        obs.append(_ob(f"pair/{a}.{b}", ["A", a, "B", b, "C"]))
    # prefix x infix, both positions
    for p, i in itertools.product(PREFIX, INFIX):
        obs.append(_ob(f"pre-in/{p}.{i}", [p, "A", i, "B"]))
        # a prefix operator directly after an infix one is not in the grammar (only a signed number is): bracket it
        obs.append(_ob(f"in-pre/{i}.{p}", ["A", i, "(", p, "B", ")"]))
    # (iii) grouping styles
    styles = [("(", ")"), ("<", ">"), ("^/", "/^")]
    pairs = list(itertools.product(INFIX, INFIX))
    sel = pairs if tier == "thorough" else [p for k, p in enumerate(pairs) if k % 4 == seed % 4]
    for a, b in sel:
        for (o, c) in styles if tier == "thorough" else [styles[(INFIX.index(a) + INFIX.index(b)) % 3]]:
            if o == "^/" and "/" in (a, b):
                o, c = "^?", "?^"
            if o == "<" and (a in ("<<", ">>") or b in ("<<", ">>")):
                pass  # legal: '< A << B >' with blanks
            obs.append(_ob(f"group-right/{a}.{b}/{o}", ["A", a, o, "B", b, "C", c]))
            obs.append(_ob(f"group-left/{a}.{b}/{o}", [o, "A", a, "B", c, b, "C"]))
    # deeper trees (seeded)
    n_deep = 200 if tier == "thorough" else 24
    for k in range(n_deep):
        depth_ops = rnd.choice([3, 3, 4]) if tier == "thorough" else 3
        ops = [rnd.choice(["+", "-", "*", "/", "%", "+", "-", "*", "<<", ">>", "_", "&", "|"]) for _ in range(depth_ops)]
        if sum(o in BITS for o in ops) > 1 or sum(o in SHIFTS for o in ops) > 1:
            ops = [o if o not in BITS | SHIFTS else "+" for o in ops[:-1]] + [ops[-1]]
        names = ["A", "B", "C", "A", "B"]
        toks = []
        for j, o in enumerate(ops):
            leaf = names[j]
            if rnd.random() < 0.3:
                toks += (["(", rnd.choice(["-", "~"]), leaf, ")", o] if j else [rnd.choice(["-", "~"]), leaf, o])
            else:
                toks += [leaf, o]
        toks.append(names[len(ops)] if len(ops) < 3 else rnd.choice([2, 3, 7]))
        # random parenthesisation of a middle pair
        if rnd.random() < 0.5 and len(ops) >= 2:
            # wrap tokens 2.. as a group
            idx = toks.index(ops[0]) + 1
            toks = toks[:idx] + ["("] + toks[idx:] + [")"]
        try:
            _ee().parse(toks)
        except Exception:
            continue
        ob = _ob(f"deep/{k}", toks, timeout=300)
        ob.params["reach_any"] = True
        obs.append(ob)
    for op in ("+", "*", "/", "%"):
        obs.append(Ob(oid=f"shadowed-export/{op}", harness="pdpverif.props.c05:h_shadow", params={"op": op}, vars={"A": "int", "B": "int", "C": "int"}, timeout=300, per_path=60))
    for kind in ("rel", "abs", "twice"):
        obs.append(Ob(oid=f"dot-after-skip/{kind}", harness="pdpverif.props.c05:h_dot_after_skip", params={"kind": kind}, vars={"A": "int", "B": "int", "C": "int"},
                      timeout=300, per_path=60))
    # the same statement at several addresses
    for op in ("/", "%", "<<", ">>", "_", "+", "*", "-"):
        obs.append(Ob(oid=f"repeat-dot/{op}", harness="pdpverif.props.c05:h_repeat_dot", params={"op": op, "n": 3}, vars={"A": "int", "B": "int", "C": "int"},
                      timeout=300, per_path=60, note=".repeat 3 { .word (. + A) op C } / .word 0 / .word (. + A) op C"))
    # 'c / "cc literals: symbolic characters
    cpmax = 0x110000 if tier == "thorough" else 0x900
    obs.append(Ob(oid="char/1/utf-8", harness=HC, params={"n": 1, "charset": "utf-8", "max_cp": cpmax, "windows": tier == "quick"}, vars={"S_1": "str"}, timeout=600))
    for pos, ch, nm in [(1, "A", "xA"), (0, "A", "Ax"), (1, "\u00e9", "x-eacute"), (0, "\u20ac", "euro-x")]:
        obs.append(Ob(oid=f"char/2/utf-8/{nm}", harness=HC, params={"n": 2, "charset": "utf-8", "max_cp": min(cpmax, 0x10000), "fixed": [pos, ch], "windows": tier == "quick"},
                      vars={"S_%d" % (2 - pos): "str"}, timeout=600, note="one symbolic BMP character beside a concrete neighbour"))
    obs.append(Ob(oid="char/1/latin-1", harness=HC, params={"n": 1, "charset": "latin-1", "max_cp": 0x180}, vars={"S_1": "str"}, timeout=200))
    obs.append(Ob(oid="literals/table", harness=HL, params={}, vars={"K": "int"}, timeout=200,
                  note="concrete side check: literal spellings (lexing is outside the solver's reach)"))
    return obs
