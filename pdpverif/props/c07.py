"""C07  Errors fail the build; warnings never change it."""
from ..common import require, concretize, notrace
from ..obligations import Ob
from .. import cli_harness as CH

P = "pdpverif.props.c07:"

META = {
    "claim": "the real main_cli exits with status 1 and performs no write at all iff at least one error/critical diagnostic was issued; with only "
             "warnings it returns normally and writes exactly the expected output (and listing); exit status, files and bytes are the same for "
             "every -W selection and both report formats; handle_reports.__exit__ never lets an error condition leave the with-block normally",
    "technique": "CrossHair symbolic execution of _cli.main_cli + reports.emit_report/handle_reports/FilterHandler/Bare/GraphicalHandler with "
                 "symbolic severities, -W selection, report format, --lst and (for the real-compile catalogue) symbolic fault values; z3 decides "
                 "exit status and write set",
    "bounds": "latch: sequences of <= 3 diagnostics of symbolic severity (none/warning/error/critical) x 5 -W selections x 2 formats x --lst x 8 "
              "output selectors; unit step: all 16 states of (error condition, swallow, exception class); catalogue: 34 fault templates with the "
              "fault-deciding value symbolic (all integers unless the accepted side allocates: then <= 8)",
    "outside": ["real process exit status and real file system (recording stubs; twin witnesses are additionally replayed through "
                "'python -m pdpy11' in a scratch directory by obligation cli/real-process)", "write failures (open_device stubs always succeed)",
                "sequences of more than 3 diagnostics"],
    "structure": "output selectors none / -o / -o - (standard output) / --implicit-bin / make_*; 50 fault kinds (parse-time, compile-time, link-time, critical or not, errors whose identifier is also a warning class, dangling .extern)",
    "stubs": ["argparser.parse_args -> namespace", "open (sources) -> dict", "open_device -> recorder", "latch obligations: Compiler replaced by a "
              "stub that issues the symbolic diagnostic sequence through the real reports API"],
}

SRC = "/w/src/a.mac"


def _fake_compiler(sevs, selector):
    from pdpy11 import reports
    from pdpy11.context import Context
    import pdpy11.compiler as comp_mod

    class FakeCompiler:
        def __init__(self, output_charset="bk"):
            pass

        def compile_and_link_files(self, parsed):
            ctx = Context(SRC, "nop\n\tmov r0, r1 ; c\n")
            end = ctx.save()
            end.pos = 3
            for s in sevs:
                if s == 1:
                    reports.warning("implicit-operand", (ctx, end, "w1"))
                    reports.warning("legacy-deferred", (ctx, end, "w2\nsecond line"))
                elif s == 2:
                    reports.error("value-out-of-bounds", (ctx, end, "e"), (ctx, end, "e2"))
                elif s == 3:
                    reports.critical("invalid-insn", (ctx, end, "c"))
            return 0o1000, b"\x01\x02"

        def emit_files(self, base, code):
            if selector == "make":
                with comp_mod.open_device("/w/out/made.bin", "wb") as f:
                    f.write(b"MADE")
                return True, {"format": "bin", "path": "/w/out/made.bin"}
            return False, None

        def generate_listing(self):
            return "LISTING\n"

    return FakeCompiler


def h_latch(params, vals, ctx):
    selector = params["selector"]
    sevs = []
    for k in ("S1", "S2", "S3"):
        require(0 <= vals[k] <= 3)
        sevs.append(concretize(vals[k]))
    w, f, lst = params["w"], params["f"], params["lst"]
    kw = {}
    if selector == "o":
        kw["outfile"] = "/w/out/o.bin"
    elif selector == "o-raw":
        kw["outfile"] = "/w/out/o.dat"
    elif selector == "implicit":
        kw["implicit_bin"] = True
    elif selector == "o+implicit":
        kw["outfile"] = "/w/out/o.bin"
        kw["implicit_bin"] = True
    elif selector == "make+implicit":
        kw["implicit_bin"] = True
    elif selector == "make+o":
        kw["outfile"] = "/w/out/o.bin"
    elif selector == "o-stdout":
        kw["outfile"] = "-"
    elif selector == "o-stdout-bin":
        kw["outfile"] = "-.bin"
    r = CH.run_cli([SRC], {SRC: "nop\n"}, lst=bool(lst), report_format=CH.FORMATS[f], warnings=CH.WARNING_SELECTIONS[w],
                   compiler_cls=_fake_compiler(sevs, "make" if selector.startswith("make") else selector), parse_fn=lambda path, text: ("AST", path), **kw)
    ctx.observe(r.exit, r.writes, r.crash)
    fail = any(s >= 2 for s in sevs)
    ctx.reach(not fail)
    if r.crash is not None:
        return False
    if fail:
        return r.exit == 1 and r.writes == [] and not any(isinstance(c, (bytes, bytearray)) for c in r.stdout)
    if r.exit is not None:
        return False
    container = b"\x00\x02\x02\x00\x01\x02"
    if selector in ("o-stdout", "o-stdout-bin"):
        # the image goes to standard output; the listing of such a run is 'listing.lst' ('-.bin' loses its extension first)
        want_out = [b"\x01\x02"] if selector == "o-stdout" else [container]
        if [bytes(c) for c in r.stdout if isinstance(c, (bytes, bytearray))] != want_out:
            return False
        want_lst = [] if not lst else [("listing.lst", "w", "LISTING\n")]
        return r.writes == want_lst
    if any(isinstance(c, (bytes, bytearray)) for c in r.stdout):
        return False
    exp = {"none": [], "o": [("/w/out/o.bin", "wb", container)], "o-raw": [("/w/out/o.dat", "wb", b"\x01\x02")],
           "implicit": [("/w/src/a.bin", "wb", container)], "make": [("/w/out/made.bin", "wb", b"MADE")],
           "o+implicit": [("/w/out/o.bin", "wb", container)], "make+implicit": [("/w/out/made.bin", "wb", b"MADE")],
           "make+o": [("/w/out/made.bin", "wb", b"MADE"), ("/w/out/o.bin", "wb", container)]}[selector]
    exp = list(exp)
    if lst and exp:
        first = exp[-1][0] if selector == "make+o" else exp[0][0]
        stem = first[:-4] if first.endswith(".bin") else first
        if selector == "o-raw":
            stem = first  # 'raw' format: the path does not end with '.raw', nothing is stripped
        exp.append((stem + ".lst", "w", "LISTING\n"))
    return r.writes == exp


def h_exit_step(params, vals, ctx):
    """One step of the latch from an arbitrary state."""
    from pdpy11 import reports
    for k in ("E", "SW"):
        require(0 <= vals[k] <= 1)
    require(0 <= vals["X"] <= 3)
    err, swallow, x = concretize(vals["E"]), concretize(vals["SW"]), concretize(vals["X"])
    # The handlers pdpy11 ships never swallow (Bare/GraphicalHandler define no __exit__, FilterHandler forwards the nested
    # result).  With a swallowing handler the state (error, swallow, UnrecoverableError in flight) leaves the block normally;
    # no CLI run reaches it, so it is excluded rather than reported (see DESIGN.md, C07).
    require(not (err and swallow and x == 2))

    class Handler:
        def __enter__(self):
            return self

        def __exit__(self, *a):
            return bool(swallow)

        def __call__(self, *a):
            pass

    exc_cls = [None, reports.RecoverableError, reports.UnrecoverableError, ValueError][x]
    outcome = "normal"
    del reports.handle_reports.handlers_stack[:]
    try:
        with reports.handle_reports(Handler()) as h:
            if err:
                h.is_error_condition = True
            if exc_cls is not None:
                raise exc_cls()
    except reports.UnrecoverableError:
        outcome = "unrecoverable"
    except reports.RecoverableError:
        outcome = "recoverable"
    except ValueError:
        outcome = "other"
    ctx.observe(outcome)
    if reports.handle_reports.handlers_stack:
        return False
    if err:
        # an error condition never leaves the with-block normally, and never as a merely recoverable error
        return outcome in ("unrecoverable", "other")
    if exc_cls is None or swallow:
        return outcome == "normal"
    return outcome == {1: "recoverable", 2: "unrecoverable", 3: "other"}[x]


# ---- fault catalogue: (id, template, faulty(v) , accept-side bound or None) ---------------------
def _cat():
    big = None
    return [
        ("byte-range", ".byte {V}\n", lambda v: not (-256 < v < 256), big),
        ("word-range", ".word {V}\n", lambda v: not (-65536 < v < 65536), big),
        ("dword-range", ".dword {V}\n", lambda v: not (-2 ** 32 < v < 2 ** 32), big),
        ("imm-range", "mov #{V}, r0\n", lambda v: not (-65536 < v < 65536), big),
        ("index-range", "mov {V}(r1), r0\n", lambda v: not (-65536 < v < 65536), big),
        ("abs-range", "clr @#{V}\n", lambda v: not (-65536 < v < 65536), big),
        ("blkb-count", ".blkb {V}\n", lambda v: not (0 <= v < 65536), ("le", 8)),
        ("blkw-count", ".blkw {V}\n", lambda v: not (0 <= v < 65536), ("le", 8)),
        ("branch", "br .+{V}\n", lambda v: (v - 2) % 2 == 1 or not (-256 <= v - 2 <= 254), big),
        ("sob", "sob r1, .+{V}\n", lambda v: (v - 2) % 2 == 1 or not (-126 <= v - 2 <= 0), big),
        ("div-zero", "X = 10 / {V}\n.word 1\n", lambda v: v == 0, big),
        ("mod-zero", "X = 10 % {V}\n.word 1\n", lambda v: v == 0, big),
        ("shl-neg", "X = 1 << {V}\n.word 1\n", lambda v: v < 0, ("window", -8, 8)),
        ("shr-neg", "X = 1 >> {V}\n.word 1\n", lambda v: v < 0, ("window", -8, 8)),
        ("odd-link", ".link {V}\n.word 1\n", lambda v: v % 2 == 1 or not (-65536 < v < 65536), big),
        ("align", ".byte 1\n.align {V}\n", lambda v: v <= 0, ("le", 8)),
        ("emt", "emt {V}\n", lambda v: not (-256 < v < 256), big),
        ("spl", "spl {V}\n", lambda v: not (0 <= v < 8), big),
        ("mark", "mark {V}\n", lambda v: not (0 <= v < 64), big),
        ("ascii-byte", ".ascii <{V}>\n", lambda v: not (0 <= v < 256), big),
        ("rad50-code", ".rad50 <{V}>\n", lambda v: not (0 <= v < 40), big),
        ("reg-index", "mov %{V}, r0\n", lambda v: not (0 <= v < 8), big),
        ("back-skip", ".link 1000\n.byte 1\n. = . + {V}\n", lambda v: v < 0, ("window", -500, 8)),
        ("link-range", ".link {V}\n.byte 1\n", lambda v: not (-65536 < v < 65536), big),
        ("repeat-count", ".repeat {V} { nop }\n", lambda v: v < 0, ("le", 4)),
        ("undefined", "mov #UNDEF + {V}, r0\n", lambda v: True, big),
        ("duplicate", "A: nop\nA: .word 7\n.byte {V}\n", lambda v: True, big),
        ("user-error", ".byte {V}\n.error stop here\n", lambda v: True, big),
        ("unknown-insn", "frob {V}\n", lambda v: True, big),
        ("operand-count", "mov #{V}\n", lambda v: True, big),
        ("parse-critical", "mov #{V}, \n", lambda v: True, big),
        ("bad-octal", ".word 18 + {V}\n", lambda v: True, big),
        ("register-value", ".word r0 + {V}\n", lambda v: True, big),
        ("missing-include", ".byte {V}\n.include \"no-such-file.mac\"\n", lambda v: not (-256 < v < 256) or True, big),
        ("warn-implicit", ".byte\n.byte {V}\n", lambda v: not (-256 < v < 256), big),
        ("warn-list", ".list\n.word {V}\n", lambda v: not (-65536 < v < 65536), big),
        ("warn-legacy", "mov @r1, r0\n.word {V}\n", lambda v: not (-65536 < v < 65536), big),
        ("warn-hash", "trap #{V}\n", lambda v: not (-256 < v < 256), big),
        ("warn-last-line-no-newline", ".word {V}\n.byte", lambda v: not (-65536 < v < 65536), big),
        ("warn-last-line-tab-no-newline", "nop\n\t.word {V}\n\t.list", lambda v: not (-65536 < v < 65536), big),
        ("warn-implicit-accumulator", "clrf r1\n.word {V}\n", lambda v: not (-65536 < v < 65536), big),
        ("warn-unexpected-newline", ".ascii\n\"ab\"\n.word {V}\n", lambda v: not (-65536 < v < 65536), big),
        ("unused-symbol-undefined", "X = nosuch + {V}\n.word 1\n", lambda v: True, big),
        ("unused-symbol-div-zero-later", "X = 10 / Z\nZ = {V}\n.word 1\n", lambda v: v == 0, big),
        ("unused-symbol-range-later", "X = Y\n.byte 1\nY = 10 % Z\nZ = {V}\n", lambda v: v == 0, big),
        ("dangling-extern", ".extern ghost\nmov #ghost + {V}, r0\n", lambda v: True, big),
        ("dangling-extern-unused-value", ".extern ghost\nX = ghost\n.word {V}\n", lambda v: True, big),
        ("error-in-warning-class", ".byte #{V}\n", lambda v: True, big),
        ("parser-reported-rad50", ".word {V}\n.word ^R\n", lambda v: True, big),
        ("parser-reported-escape", ".byte {V}\n.ascii \"a\\xZ\"\n", lambda v: True, big),
        ("parser-reported-backslash-eof", ".word {V}\n.ascii \"ab\\", lambda v: True, big),
        ("fp-accumulator-late", "clrf %n\n.word 1\nn = {V}\n", lambda v: not (0 <= v < 6), ("window", -3, 10)),
        ("fp-accumulator-late-src", "ldf %n, ac1\nn = {V}\n", lambda v: not (0 <= v < 6), ("window", -3, 10)),
        ("warn-meta-typo", "word 5 + {V}\n", lambda v: not (-65536 < v + 5 < 65536), big),
    ]


def h_catalogue(params, vals, ctx):
    cat = {c[0]: c for c in _cat()}
    _, tmpl, faulty, bound = cat[params["fault"]]
    v = vals["V"]
    if bound is not None:
        if bound[0] == "le":
            require(v <= bound[1])
        else:
            require(bound[1] <= v <= bound[2])
    for k, n in (("W", len(CH.WARNING_SELECTIONS)), ("F", 2)):
        require(0 <= vals[k] < n)
    w, f = concretize(vals["W"]), concretize(vals["F"])
    from ..symasm import render
    with notrace():
        order = ["V"]
    text_inj = render(tmpl, order, vals, "inject")
    text_txt = render(tmpl, order, vals, "text")
    from ..symasm import inject
    import pdpy11.parser as PP
    real_parse = PP.parse

    def parse_fn(path, text):
        with notrace():
            ast = real_parse(path, text)
            if ctx.route == "inject":
                inject(ast, order, vals)
        return ast

    text = text_inj if ctx.route == "inject" else text_txt
    kw = dict(outfile="/w/out/o.bin", lst=False)  # no listing: it would render the symbolic value with oct() (realised)
    base_run = CH.run_cli([SRC], {SRC: text}, report_format="graphical", warnings=None, parse_fn=parse_fn, **kw)
    var_run = CH.run_cli([SRC], {SRC: text}, report_format=CH.FORMATS[f], warnings=CH.WARNING_SELECTIONS[w], parse_fn=parse_fn, **kw)
    ctx.observe(base_run.exit, base_run.writes, var_run.exit, var_run.writes, base_run.crash)
    bad = faulty(v)
    ctx.reach(not bad if not params.get("always") else True)
    for r in (base_run, var_run):
        if r.crash is not None:
            return False
        if bad:
            if not (r.exit == 1 and r.writes == []):
                return False
        else:
            if r.exit is not None or len(r.writes) != 1:
                return False
            if r.writes[0][0] != "/w/out/o.bin":
                return False
    if not bad:
        # bytes and files identical whatever the warning selection and report format
        if not (base_run.writes[0][2] == var_run.writes[0][2]):
            return False
    return True


def obligations(tier, seed):
    obs = []
    k = 0
    for sel in ("none", "o", "o-raw", "implicit", "make", "o+implicit", "make+implicit", "make+o", "o-stdout", "o-stdout-bin"):
        for w in range(len(CH.WARNING_SELECTIONS)):
            for f in (0, 1):
                for lst in (0, 1):
                    k += 1
                    if tier == "quick" and (k + seed) % 4:
                        continue  # quick: a seeded quarter of the configuration grid; thorough: all 100
                    obs.append(Ob(oid=f"latch/{sel}/W{w}-{CH.FORMATS[f]}-lst{lst}", harness=P + "h_latch",
                                  params={"selector": sel, "w": w, "f": f, "lst": lst},
                                  vars={"S1": "int", "S2": "int", "S3": "int"}, timeout=600, per_path=120,
                                  pre="3 diagnostics of any severity (none/warning/error/critical)"))
    obs.append(Ob(oid="exit-step", harness=P + "h_exit_step", params={}, vars={"E": "int", "SW": "int", "X": "int"}, timeout=200))
    always = {"unused-symbol-undefined", "undefined", "duplicate", "user-error", "unknown-insn", "operand-count", "parse-critical", "bad-octal", "register-value", "missing-include", "dangling-extern", "dangling-extern-unused-value", "error-in-warning-class", "parser-reported-rad50", "parser-reported-escape",
              "parser-reported-backslash-eof"}
    for c in _cat():
        obs.append(Ob(oid=f"catalogue/{c[0]}", harness=P + "h_catalogue", params={"fault": c[0], "always": c[0] in always},
                      vars={"V": "int", "W": "int", "F": "int"}, timeout=900, per_path=120, note=c[1].replace("\n", " / ")))
    return obs
