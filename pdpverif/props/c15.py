"""C15  Radix-50 packing."""
from ..common import require, concretize
from ..obligations import Ob
from ..symasm import assemble, word_at

P = "pdpverif.props.c15:"

# independent copy of the RADIX-50 alphabet (DEC standard: space, A-Z, $, ., unused(%), 0-9)
ALPHABET = " ABCDEFGHIJKLMNOPQRSTUVWXYZ$.%0123456789"

META = {
    "claim": "'.rad50' and the packing routine behind '^R' pack each three characters as (c1*40+c2)*40+c3 with space padding and case folding; "
             "unpacking the emitted words with an independent alphabet returns the upper-cased padded input; characters outside the alphabet "
             "fail with invalid-character and <n> is accepted iff 0 <= n < 40",
    "technique": "CrossHair symbolic execution of metacommands.rad50 / radix50.pack_to_int with the characters chosen by symbolic indices into "
                 "the alphabet (solver-enumerated), <n> codes as unbounded symbolic integers, one free symbolic code point for the reject side",
    "bounds": "quick: each of the three positions symbolic (40 letters x 2 cases) with the other two concrete (9 neighbour pairs); thorough: all "
              "64000 triples (three symbolic indices, sharded by the first); <n>: every integer; lengths 0..12",
    "outside": ["'^R' literals are lexed from concrete text: the three characters are enumerated structure there (all 64000 in thorough as a "
                "concrete side check); only pack_to_int underneath is decided symbolically"],
    "structure": "position x neighbour pair; string lengths 0..12; <n> alone, first, last, twice, as fourth character and between empty strings; ^R literals of length 1-3 with every alphabet character in every position",
    "stubs": [],
}


def unpack(word):
    return ALPHABET[word // 1600] + ALPHABET[word // 40 % 40] + ALPHABET[word % 40]


def idx_char(i, lower):
    ch = ALPHABET[i]
    return ch.lower() if lower else ch


def h_triple(params, vals, ctx):
    """'.rad50 "abc"' with symbolic alphabet indices for the positions listed in params['sym']."""
    fixed = params["fixed"]  # three concrete characters (used where the position is not symbolic)
    chars = []
    for pos in range(3):
        if pos in params["sym"]:
            i = vals[f"I{pos}"]
            low = vals.get(f"L{pos}", 0)
            require(0 <= i < 40)
            require(0 <= low <= 1)
            if params.get("shard") is not None and pos == 0:
                require(i == params["shard"])
            if params.get("shard1") is not None and pos == 1:
                require(i == params["shard1"])
            i, low = concretize(i), concretize(low)
            chars.append(idx_char(i, low))
        else:
            chars.append(fixed[pos])
    s = "".join(chars)
    if params.get("len") is not None:
        s = s[:params["len"]]          # a shorter literal: padded with blanks on the right
    d = params.get("dir", ".rad50")
    text = f'{d} "{s}"\n' if params.get("via") != "caretR" else f".word ^R{s}\n"
    if params.get("via") == "caretR":
        require(" " not in s)  # ^R literals cannot contain blanks
    o = assemble([("a.mac", text)], {}, route=ctx.route)
    ctx.observe_outcome(o)
    ctx.reach(o.status == "ok")
    if o.status != "ok" or o.errors or len(o.code) != 2:
        return False
    w = word_at(o.code, 0)
    up = (s.upper() + "   ")[:3]
    return w == (ALPHABET.index(up[0]) * 40 + ALPHABET.index(up[1])) * 40 + ALPHABET.index(up[2]) and unpack(w) == up


def h_pack(params, vals, ctx):
    """radix50.pack_to_int (the routine behind ^R) on a symbolic string over the alphabet, length 0..3."""
    from pdpy11 import radix50
    n = vals["N"]
    require(0 <= n <= params.get("maxn", 3))
    if params.get("shard") is not None:
        require(n == params.get("n", 3) and vals["I0"] == params["shard"])
        if params.get("shard1") is not None:
            require(vals["I1"] == params["shard1"])
    n = concretize(n)
    s = ""
    for pos in range(n):
        i = vals[f"I{pos}"]
        require(0 <= i < 40)
        s = s + ALPHABET[concretize(i)]
    w = radix50.pack_to_int(s)
    ctx.observe(w)
    padded = s + " " * (3 - n)
    return unpack(w) == padded


def h_code(params, vals, ctx):
    """'.rad50 <n>' : accepted iff 0 <= n < 40; mixed with text chunks."""
    v = vals["V"]
    shape = params.get("shape", "mid")
    text, want = {
        "mid": ('.rad50 "A" <{V}> "B"\n', [(1 * 40 + v) * 40 + 2]),
        "alone": ('.rad50 <{V}>\n', [v * 1600]),
        "first": ('.rad50 <{V}> "AB"\n', [(v * 40 + 1) * 40 + 2]),
        "last": ('.rad50 "AB" <{V}>\n', [(1 * 40 + 2) * 40 + v]),
        "twice": ('.rad50 <{V}> <{V}>\n', [(v * 40 + v) * 40]),
        "fourth": ('.rad50 "ABC" <{V}>\n', [(1 * 40 + 2) * 40 + 3, v * 1600]),
        "empty-text": ('.rad50 "" <{V}> ""\n', [v * 1600]),
        # a concatenated operand that is evaluated more than once: retried because a code names a symbol defined further down, or repeated
        "late-symbol": ('.rad50 /XY/<code>/Z12/\ncode = {V}\n', [(24 * 40 + 25) * 40 + v, (26 * 40 + 31) * 40 + 32]),
        "late-symbol-last": ('.rad50 /AB/ /C/ <code>\ncode = {V}\n', [(1 * 40 + 2) * 40 + 3, v * 1600]),
        "repeat": ('.repeat 3 { .rad50 /AB/<{V}> }\n', [(1 * 40 + 2) * 40 + v] * 3),
    }[shape]
    o = assemble([("a.mac", text)], vals, route=ctx.route)
    ctx.observe_outcome(o)
    accept = 0 <= v < 40
    ctx.reach(accept)
    if not accept:
        return o.status == "failed" and "value-out-of-bounds" in o.error_ids
    if o.status != "ok" or o.errors or len(o.code) != 2 * len(want):
        return False
    for k, w in enumerate(want):
        if not (word_at(o.code, 2 * k) == w):
            return False
    return True


def h_reject(params, vals, ctx):
    """A character outside the alphabet is an error, never a packed value."""
    ch = vals["S_1"]
    require(len(ch) == 1)
    c = ord(ch)
    require(c < 0xD800 or c >= 0xE100)
    require(c not in (9, 10, 13) and ch not in "\"\\/'")
    require(0x20 <= c < 0x250 or 0x400 <= c < 0x460)
    c = concretize(c)
    ch = chr(c)
    vals = {**vals, "S_1": ch}
    text = '.rad50 "A{S_1}"\n'
    o = assemble([("a.mac", text)], vals, route=ctx.route)
    ctx.observe_outcome(o)
    ctx.reach(o.status in ("ok", "failed"))
    inside = ch.upper() in ALPHABET and len(ch.upper()) == 1
    # the same text once more in the same process (fresh parser, fresh Compiler): the verdict may not change
    o2 = assemble([("b.mac", '.word 1\n' + text)], vals, route=ctx.route)
    if o2.status != o.status:
        return False
    if not inside:
        return o.status == "failed" and "invalid-character" in o.error_ids
    if o.status != "ok" or o.errors:
        return False
    return word_at(o.code, 0) == (1 * 40 + ALPHABET.index(ch.upper())) * 40


def h_length(params, vals, ctx):
    """Padding: a string of n characters gives ceil(n/3) words; the tail is padded with spaces."""
    n = params["n"]
    i = vals["I"]
    require(0 <= i < 40)
    i = concretize(i)
    base = "AZ9$.%0 B" * 2
    s = (base[:n - 1] + ALPHABET[i]) if n else ""
    text = f'.rad50 "{s}"\n.byte 7\n'
    o = assemble([("a.mac", text)], {}, route=ctx.route)
    ctx.observe_outcome(o)
    ctx.reach(o.status == "ok")
    if o.status != "ok" or o.errors:
        return False
    nw = (n + 2) // 3
    if len(o.code) != 2 * nw + 1 or o.code[2 * nw] != 7:
        return False
    got = "".join(unpack(word_at(o.code, 2 * k)) for k in range(nw))
    return got == s.upper() + " " * (3 * nw - n)


def obligations(tier, seed):
    obs = []
    neigh = ["AB", " Z", "9$", "..", "%0", "M ", "a9", "  ", "z."] if tier == "thorough" else ["AB", " 9", "z."]
    for pos in range(3):
        for nb in neigh:
            fixed = list(nb)
            fixed.insert(pos, "?")
            obs.append(Ob(oid=f"triple/pos{pos}/{nb.replace(' ', '_')}", harness=P + "h_triple", params={"sym": [pos], "fixed": fixed},
                          vars={f"I{pos}": "int", f"L{pos}": "int"}, timeout=300))
    obs.append(Ob(oid="caretR/pos1", harness=P + "h_triple", params={"sym": [1], "fixed": ["A", "?", "9"], "via": "caretR"},
                  vars={"I1": "int", "L1": "int"}, timeout=300, note="^R literal: characters are concrete text per path (side check)"))
    for pos, fixed, ln in ((0, ["?", "B", "9"], None), (2, ["A", "B", "?"], None), (0, ["?", "B", "9"], 1), (1, ["A", "?", "9"], 2)):
        obs.append(Ob(oid=f"caretR/pos{pos}" + (f"/len{ln}" if ln else ""), harness=P + "h_triple", params={"sym": [pos], "fixed": fixed, "via": "caretR", "len": ln},
                      vars={f"I{pos}": "int", f"L{pos}": "int"}, timeout=300, note="^R literal ending in / consisting of each alphabet character"))
    if tier == "thorough":
        for shard in range(40):
            for shard1 in range(40):
                obs.append(Ob(oid=f"all-triples/{shard}.{shard1}", harness=P + "h_triple",
                              params={"sym": [0, 1, 2], "fixed": ["?", "?", "?"], "shard": shard, "shard1": shard1},
                              vars={"I0": "int", "I1": "int", "I2": "int"}, timeout=600, per_path=60, twin=(shard1 == 0)))
    obs.append(Ob(oid="pack_to_int/len0-1", harness=P + "h_pack", params={"maxn": 1}, vars={"N": "int", "I0": "int", "I1": "int", "I2": "int"},
                  timeout=900, pre="every string of 0..1 alphabet characters"))
    for shard in (range(40) if tier == "thorough" else [0, 13, 39]):
        obs.append(Ob(oid=f"pack_to_int/len2/{shard}", harness=P + "h_pack", params={"shard": shard, "n": 2},
                      vars={"N": "int", "I0": "int", "I1": "int", "I2": "int"}, timeout=900, per_path=60,
                      pre=f"every 2-character string starting with letter #{shard}"))
    for shard, shard1 in ([(a, b) for a in range(40) for b in range(40)] if tier == "thorough" else [(1, 2), (27, 39), (0, 0)]):
        obs.append(Ob(oid=f"pack_to_int/len3/{shard}.{shard1}", harness=P + "h_pack", params={"shard": shard, "shard1": shard1, "n": 3},
                      vars={"N": "int", "I0": "int", "I1": "int", "I2": "int"}, timeout=900, per_path=60, twin=(tier != "thorough" or shard1 == 0),
                      pre=f"every 3-character string starting with letters #{shard} #{shard1}"))
    obs.append(Ob(oid="code/<n>", harness=P + "h_code", params={}, vars={"V": "int"}, timeout=200, pre="every integer n"))
    for shape in ("alone", "first", "last", "twice", "fourth", "empty-text", "late-symbol", "late-symbol-last", "repeat"):
        obs.append(Ob(oid=f"code/<n>/{shape}", harness=P + "h_code", params={"shape": shape}, vars={"V": "int"}, timeout=200, pre="every integer n"))
    obs.append(Ob(oid="reject/outside-alphabet", harness=P + "h_reject", params={}, vars={"S_1": "str"}, timeout=900))
    for n in range(0, 13):
        obs.append(Ob(oid=f"length/{n}", harness=P + "h_length", params={"n": n}, vars={"I": "int"}, timeout=300))
    return obs
