"""C01  Machine-code fidelity of every instruction form.

One obligation = one mnemonic + one tuple of operand forms.  Symbolic: register numbers
(through the real %n operator), extension values, inline numbers, branch distance, link
base.  Oracle: ref/pdp11_isa.decode of the emitted words.
"""
import itertools
import random

from ..common import require, Skip, concretize
from ..obligations import Ob
from .. import forms as F
from ..symasm import assemble, words

H = "pdpverif.props.c01:h_insn"
HS = "pdpverif.props.c01:h_synonym"

META = {
    "bounds": "one instruction per program; extension values X in (-2^16, 2^16) (PC-relative targets in (-2^17, 2^17)); "
              "register numbers 0..7 symbolic through %n; inline fields over their whole non-negative range; branch distance all even "
              "values in reach; link base 0..65535 whenever a PC-relative form or branch is involved",
    "outside": ["explicitly written (pc)+ / @(pc)+ (the programmer supplies the operand word separately)",
                "negative inline numbers (accepted and wrapped by the assembler today) are not asserted",
                "accumulator operands ac4/ac5 in a 2-bit accumulator field (assembled as ac0/ac1 today) are not asserted",
                "which spelling of a mnemonic/register is used is enumerated structure (concrete text), see C10",
                "mnemonics flagged INDEP=False in ref/pdp11_isa.py are checked against a frozen copy, not an independent source"],
    "structure": "quick: every mnemonic of the real table with one form tuple + all 144 form pairs for mov + every single form "
                 "for one mnemonic of each signature class; thorough: every form tuple for every mnemonic",
    "stubs": [],
    "explanation": "CrossHair executes parser(concrete)->Compiler->insns.encode->get_opcode->struct.pack with symbolic ints; z3 decides "
                   "decode(emitted) == written operation for all values",
}


def _isa():
    from ref import pdp11_isa
    return pdp11_isa


def operand_kinds(fmt):
    return {
        "none": [], "dst": ["G"], "ss_dd": ["G", "G"], "r_dd": ["R", "G"], "ss_r": ["G", "R"], "r": ["R"],
        "br": ["BR"], "sob": ["R", "SOB"], "n8": ["N8"], "n6": ["N6"], "n3": ["N3"], "fdst": ["FG"],
        "fsrc_ac": ["FG", "AC"], "ac_fdst": ["AC", "FG"], "ac_dst": ["AC", "G"], "src_ac": ["G", "AC"],
    }[fmt]


def forms_for(kind, tier):
    if kind == "G":
        return F.SYMBOLIC_FORMS + (F.NAMED_FORMS if tier == "thorough" else [])
    if kind == "FG":
        return [f"ac{i}" for i in range(6)] + F.SYMBOLIC_FORMS
    if kind == "R":
        return ["reg"] + (["n_sp", "n_pc", "n_r3"] if tier == "thorough" else [])
    if kind == "AC":
        return ["ac0", "ac1", "ac2", "ac3"]
    return [kind.lower()]  # BR SOB N8 N6 N3


def written_format(mn):
    isa = _isa()
    if mn in isa.ALIASES:
        return isa.ALIAS_FORMAT[mn]
    return isa.T[mn][1]


def build(mn, fms):
    """-> (template text, variable list, expected operand list, needs_base)"""
    isa = _isa()
    fmt = written_format(mn)
    kinds = operand_kinds(fmt)
    assert len(kinds) == len(fms), (mn, fmt, fms)
    texts, expect, vars_ = [], [], []
    needs_base = False
    for i, (k, f) in enumerate(zip(kinds, fms), start=1):
        if k in ("G", "FG", "R"):
            if f.startswith("ac"):
                texts.append(f)
                expect.append({"kind": "g", "mode": 0, "reg": int(f[2]), "ext": None})
                continue
            texts.append(F.text(f, i))
            mode, reg, ext = F.mode_reg_ext(f)
            uses_r, uses_x = F.uses(f)
            if uses_r:
                vars_.append(f"R{i}")
            if uses_x:
                vars_.append(f"X{i}")
            if ext == "pcrel":
                needs_base = True
            if k == "R":
                expect.append({"kind": "r", "reg": reg if reg != "R" else f"R{i}"})
            else:
                expect.append({"kind": "g", "mode": mode, "reg": reg if reg != "R" else f"R{i}", "ext": ext, "x": f"X{i}", "fp": k == "FG"})
        elif k == "AC":
            texts.append(f)
            expect.append({"kind": "ac", "value": int(f[2])})
        elif k == "BR":
            texts.append(".+{D}")
            vars_.append("D")
            needs_base = True
            expect.append({"kind": "disp", "lo": -256, "hi": 254})
        elif k == "SOB":
            texts.append(".+{D}")
            vars_.append("D")
            needs_base = True
            expect.append({"kind": "disp", "lo": -126, "hi": 0})
        elif k in ("N8", "N6", "N3"):
            texts.append("{N}")
            vars_.append("N")
            expect.append({"kind": "n", "bits": int(k[1])})
    text = ""
    if needs_base:
        text += ".link {B}\n"
        vars_.append("B")
    text += mn + (" " + ", ".join(texts) if texts else "") + "\n"
    return text, vars_, expect, needs_base


def forward_registers(text):
    """'%{R1}' -> '%rn1' with 'rn1 = {R1}' defined AFTER the instruction (register number not known when the operand is encoded)."""
    import re
    names = re.findall(r"%\{(R\d)\}", text)
    for n in names:
        text = text.replace("%{" + n + "}", "%rn" + n[1])
    return text + "".join(f"rn{n[1]} = {{{n}}}\n" for n in dict.fromkeys(names))


def expected_after_alias(mn, expect):
    """Operand list the decoder must report, after expanding alias mnemonics."""
    isa = _isa()
    if mn not in isa.ALIASES:
        return mn, expect
    primary, tmpl = isa.ALIASES[mn]
    it = iter(expect)
    out = []
    for t in tmpl:
        if t is None:
            e = next(it)
            out.append(e)
        elif isinstance(t, tuple):
            out.append({"kind": "g", "mode": t[0], "reg": t[1], "ext": None})
        else:
            out.append({"kind": "r", "reg": t})
    # 'call x' = jsr pc,x : first operand register
    return primary, out


def check_pre(vals, expect, needs_base):
    for e in expect:
        if e["kind"] in ("g", "r") and isinstance(e.get("reg"), str):
            r = vals[e["reg"]]
            require(0 <= r <= (5 if e.get("fp") and e["mode"] == 0 else 7))
            if e["kind"] == "g" and e["mode"] in (2, 3) and e.get("ext") is None:
                # an explicitly written (pc)+ / @(pc)+ is immediate/absolute mode whose operand word the
                # programmer supplies separately: "consumes exactly the emitted words" does not apply
                require(r != 7)
        if e["kind"] == "g" and e.get("ext") in ("value", "pcrel"):
            x = vals[e["x"]]
            if e["ext"] == "value":
                require(-65536 < x < 65536)
            else:
                require(-131072 < x < 131072)
        if e["kind"] == "n":
            require(0 <= vals["N"] < 2 ** e["bits"])
        if e["kind"] == "disp":
            d = vals["D"]
            require(e["lo"] <= d - 2 <= e["hi"])
            require(d % 2 == 0)
    if needs_base:
        require(0 <= vals["B"] < 65536)


def decode_matches(isa, mn, expect, code, base, vals):
    """``code`` = the bytes of exactly one instruction located at address ``base``.

    Arithmetic decoder (ref.pdp11_isa.decode_as): the opcode word may stay symbolic."""
    if len(code) < 2 or len(code) % 2:
        return False
    if "D" in vals and "OFF" not in vals:
        vals = {**vals, "OFF": vals["D"] - 2}
    ws = words(code)
    primary, exp = expected_after_alias(mn, expect)
    d = isa.decode_as(primary, ws[0])
    if d is None:
        return False
    fmt, got_ops = d
    if len(got_ops) != len(exp):
        return False
    n = 1  # words consumed so far
    for got, e in zip(got_ops, exp):
        if e["kind"] == "g":
            if got[0] != "g":
                return False
            reg = vals[e["reg"]] if isinstance(e["reg"], str) else e["reg"]
            if not (got[1] == e["mode"]):
                return False
            if not (got[2] == reg):
                return False
            if e.get("ext") is not None:
                if n >= len(ws):
                    return False
                ext = ws[n]
                n += 1
                if e["ext"] == "value":
                    if not (ext == vals[e["x"]] % 65536):
                        return False
                elif e["ext"] == "pcrel":
                    # effective address as the processor computes it: ext + address of the next word
                    if not ((ext + base + 2 * n) % 65536 == vals[e["x"]] % 65536):
                        return False
                elif e["ext"] == "zero":
                    if not (ext == 0):
                        return False
        elif e["kind"] == "r":
            reg = vals[e["reg"]] if isinstance(e["reg"], str) else e["reg"]
            if got[0] != "r" or not (got[1] == reg):
                return False
        elif e["kind"] == "ac":
            if got[0] != "ac" or not (got[1] == e["value"]):
                return False
        elif e["kind"] == "n":
            if got[0] != "n" or not (got[1] == vals["N"]):
                return False
        elif e["kind"] == "disp":
            if got[0] != "disp" or not (got[1] == vals[e.get("offvar", "OFF")]):
                return False
    return n == len(ws)


def h_insn(params, vals, ctx):
    isa = _isa()
    mn, fms = params["mn"], params["forms"]
    text, vars_, expect, needs_base = build(mn, fms)
    check_pre(vals, expect, needs_base)
    if params.get("fwdreg"):
        text = forward_registers(text)
    o = assemble([("a.mac", text)], vals, route=ctx.route)
    ctx.observe_outcome(o)
    ctx.reach(o.status == "ok")
    if o.status != "ok" or o.errors:
        return False
    base = vals["B"] if needs_base else 0o1000
    if o.base != base:
        return False
    return decode_matches(isa, mn, expect, o.code, base, vals)


def h_field_reject(params, vals, ctx):
    """The other side of 'in range': a branch distance out of reach (or odd) and an inline number that does not fit its field are
    refused -- no word is emitted that would decode to something else than what was written."""
    mn, fms = params["mn"], params["forms"]
    text, vars_, expect, needs_base = build(mn, fms)
    if needs_base:
        require(0 <= vals["B"] < 60000)
    for e in expect:
        if e["kind"] in ("g", "r") and isinstance(e.get("reg"), str):
            require(0 <= vals[e["reg"]] <= 7)
        if e["kind"] == "disp":
            d = vals["D"]
            require(-2000 <= d <= 2000)
            require(not (e["lo"] <= d - 2 <= e["hi"]) or d % 2 == 1)
        if e["kind"] == "n":
            n = vals["N"]
            require(-300 <= n <= 300)
            # negative numbers are accepted for 8-bit fields (two's complement); everything else must fit
            require(not (0 <= n < 2 ** e["bits"]) and not (e["bits"] == 8 and -256 < n < 0))
    o = assemble([("a.mac", text)], vals, route=ctx.route)
    ctx.observe_outcome(o)
    ctx.reach(o.status == "failed")
    return o.status == "failed" and len(o.errors) >= 1


INDEX_EXPRS = [["X", "+", 2, "*", 3], [100, "-", "X", "/", 4], ["X", "*", 2, "+", 3], ["X", "+", "Y", "*", 2], ["X", "-", 2, "-", 4], ["X", "+", 2, "*", 3, "-", "Y"],
               ["(", "X", "+", 2, ")", "*", 3], ["X", "<<", 1, "+", 1], ["-", "X", "+", 1], ["X", "%", 7, "+", "Y", "*", 3]]


def h_index_expr(params, vals, ctx):
    """An index (or index deferred) operand whose displacement is a compound expression written directly before '(Rn)':
    the whole expression is the index word, evaluated with the documented precedence."""
    from ref import expr_eval as ee
    isa = _isa()
    toks = INDEX_EXPRS[params["k"]]
    x, y, r = vals["X"], vals.get("Y", 0), vals["R"]
    require(-1000 <= x <= 1000 and -1000 <= y <= 1000 and 0 <= r <= 6)
    tree = ee.parse(toks)
    expr = ee.render(toks, {"X": "{X}", "Y": "{Y}"})
    at = "@" if params["deferred"] else ""
    if params["pos"] == "src":
        text = f"mov {at}{expr}(%{{R}}), r0\n"
        expect = [{"kind": "g", "mode": 7 if at else 6, "reg": "R", "ext": "value", "x": "XV"}, {"kind": "g", "mode": 0, "reg": 0, "ext": None}]
    else:
        text = f"mov #5, {at}{expr}(%{{R}})\n"
        expect = [{"kind": "g", "mode": 2, "reg": 7, "ext": "value", "x": "FIVE"}, {"kind": "g", "mode": 7 if at else 6, "reg": "R", "ext": "value", "x": "XV"}]
    o = assemble([("a.mac", text)], vals, route=ctx.route)
    ctx.observe_outcome(o)
    ctx.reach(o.status == "ok")
    if o.status != "ok" or o.errors:
        return False
    v2 = dict(vals)
    v2["XV"] = ee.evaluate(tree, {"X": x, "Y": y})
    v2["FIVE"] = 5
    return decode_matches(isa, "mov", expect, o.code, 0o1000, v2)


def h_synonym(params, vals, ctx):
    """Two spellings of one operation in one harness: identical bytes for all operand values."""
    a, b = params["a"], params["b"]
    ta, _, expect, needs_base = build(a["mn"], a["forms"])
    tb, _, _, _ = build(b["mn"], b["forms"])
    check_pre(vals, expect, needs_base)
    oa = assemble([("a.mac", ta)], vals, route=ctx.route)
    ob = assemble([("a.mac", tb)], vals, route=ctx.route)
    ctx.observe_outcome(oa)
    ctx.observe_outcome(ob)
    ctx.reach(oa.status == "ok")
    if oa.status != "ok" or ob.status != "ok":
        return False
    return oa.base == ob.base and oa.code == ob.code


def _ob(mn, fms, tier, tag=""):
    text, vars_, expect, nb = build(mn, list(fms))
    nsym_r = sum(1 for v in vars_ if v.startswith("R"))
    timeout = 150 if nsym_r < 2 else 400
    return Ob(oid=f"insn/{mn}/{'+'.join(fms) or '-'}{tag}", harness=H, params={"mn": mn, "forms": list(fms)},
              vars={v: "int" for v in vars_}, timeout=timeout, per_path=60,
              note=text.replace("\n", " / "), pre="registers 0..7, |X|<2^16, inline fields in range, even branch distance in reach, 0<=B<65536")


def obligations(tier, seed):
    import sys
    from pdpy11.insns import instructions
    isa = _isa()
    rnd = random.Random(seed)
    obs = []
    real = sorted(k for k in instructions)
    missing = [m for m in real if m not in isa.ALL_MNEMONICS]
    assert not missing, f"mnemonics of the real table unknown to the reference: {missing}"
    seen = set()

    def add(mn, fms, tag=""):
        key = (mn, tuple(fms), tag)
        if key in seen:
            return
        seen.add(key)
        obs.append(_ob(mn, fms, tier, tag))

    rep_by_fmt = {}
    for mn in real:
        fmt = written_format(mn)
        kinds = operand_kinds(fmt)
        choices = [forms_for(k, tier) for k in kinds]
        rep_by_fmt.setdefault((fmt, mn in isa.ALIASES), mn)
        if tier == "thorough":
            for combo in itertools.product(*choices):
                if sum(1 for f in combo if f in F.SYMBOLIC_FORMS and F.uses(f)[0]) == 2 and mn not in ("mov", "cmp", "jsr", "mul", "ldf", "stf", "sub", "xor", "ldexp", "stexp"):
                    # two symbolic registers at once only on representatives: elsewhere make the second one named
                    continue
                add(mn, combo)
        else:
            # one (seeded) form tuple per mnemonic
            combo = [rnd.choice(c) for c in choices]
            add(mn, combo)
    # every single form for one mnemonic of each signature class, all pairs for mov
    for (fmt, is_alias), mn in sorted(rep_by_fmt.items()):
        kinds = operand_kinds(fmt)
        choices = [forms_for(k, "thorough" if len(kinds) == 1 else tier) for k in kinds]
        if len(kinds) <= 1:
            for combo in itertools.product(*choices):
                add(mn, combo)
        else:
            # vary one operand at a time against a fixed partner
            for pos in range(len(kinds)):
                for f in choices[pos]:
                    combo = [c[-1] if c[-1] not in ("reg",) else c[0] for c in choices]
                    combo = [("imm" if k == "G" else ("ac1" if k in ("FG", "AC") else c[0])) for k, c in zip(kinds, choices)]
                    combo[pos] = f
                    add(mn, combo)
    for a in F.SYMBOLIC_FORMS:
        for b in F.SYMBOLIC_FORMS:
            add("mov", [a, b])
    for k in range(len(INDEX_EXPRS)):
        for pos, deferred in (("src", False), ("dst", True)) if tier == "quick" else (("src", False), ("src", True), ("dst", False), ("dst", True)):
            vars_ = {"X": "int", "R": "int"}
            if "Y" in INDEX_EXPRS[k]:
                vars_["Y"] = "int"
            obs.append(Ob(oid=f"index-expr/{k}/{pos}{'-deferred' if deferred else ''}", harness="pdpverif.props.c01:h_index_expr", params={"k": k, "pos": pos, "deferred": deferred},
                          vars=vars_, timeout=200, per_path=60, note=" ".join(map(str, INDEX_EXPRS[k])) + "(%R)"))
    # the refusing side of every inline field and branch distance
    for mn in real:
        kinds = operand_kinds(written_format(mn))
        if any(k in ("BR", "SOB", "N8", "N6", "N3") for k in kinds):
            fms = [("reg" if k == "R" else forms_for(k, "quick")[0]) for k in kinds]
            t, vars_, _, _ = build(mn, fms)
            obs.append(Ob(oid=f"reject/{mn}", harness="pdpverif.props.c01:h_field_reject", params={"mn": mn, "forms": fms}, vars={v: "int" for v in vars_},
                          timeout=200, per_path=60, note=t.replace("\n", " / "), pre="distance out of reach or odd / number outside its field, within +-2000 / +-300"))
    for late in (False, True):
        obs.append(Ob(oid=f"lazy-operands/{'late-link' if late else 'link-first'}", harness="pdpverif.props.c01:h_lazy_operands", params={"late": late},
                      vars={"B": "int", "K": "int"}, timeout=300, per_path=90, note="operand values through a forward alias with coefficients -1 and 3"))
    # register numbers given by a symbol that is defined after the instruction
    for f in [x for x in F.SYMBOLIC_FORMS if F.uses(x)[0]]:
        for mn, fms in (("clr", [f]), ("mov", [f, "imm"]), ("mov", ["abs", f]), ("jsr", ["reg", f]), ("mul", [f, "reg"]), ("ldf", [f, "ac1"]), ("stf", ["ac2", f])):
            if mn in ("ldf", "stf") and f == "reg":
                continue
            ob = _ob(mn, fms, tier, "/fwdreg")
            ob.params["fwdreg"] = True
            obs.append(ob)
    # synonyms: classes of the reference table + aliases with fixed operands
    for (base, fmt), names in sorted(isa.classes().items()):
        names = [n for n in names if n in real]
        for other in names[1:]:
            kinds = operand_kinds(fmt)
            combo = [("idx" if k in ("G", "FG") else forms_for(k, "quick")[0]) for k in kinds]
            t, vars_, _, _ = build(names[0], combo)
            obs.append(Ob(oid=f"syn/{names[0]}={other}", harness=HS,
                          params={"a": {"mn": names[0], "forms": combo}, "b": {"mn": other, "forms": combo}},
                          vars={v: "int" for v in vars_}, timeout=120, note=f"{names[0]} == {other}"))
    alias_pairs = [
        ({"mn": "pop", "forms": ["idx"]}, {"mn": "mov", "forms": ["n_(sp)+", "idx"]}),
        ({"mn": "push", "forms": ["idx"]}, {"mn": "mov", "forms": ["idx", "n_-(sp)"]}),
        ({"mn": "call", "forms": ["rel"]}, {"mn": "jsr", "forms": ["n_pc", "rel"]}),
        ({"mn": "callr", "forms": ["reldef"]}, {"mn": "jmp", "forms": ["reldef"]}),
        ({"mn": "ret", "forms": []}, {"mn": "rts", "forms": ["n_pc"]}),
        ({"mn": "return", "forms": []}, {"mn": "rts", "forms": ["n_pc"]}),
        ({"mn": "sys", "forms": ["n8"]}, {"mn": "trap", "forms": ["n8"]}),
        ({"mn": "hlt", "forms": []}, {"mn": "halt", "forms": []}),
    ]
    for a, b in alias_pairs:
        _, va, _, _ = build(a["mn"], a["forms"])
        _, vb, _, _ = build(b["mn"], b["forms"])
        # operand variable names differ by position (X1 vs X2): rename b's template to a's variables
        obs.append(Ob(oid=f"alias/{a['mn']}={b['mn']}", harness="pdpverif.props.c01:h_alias", params={"a": a, "b": b},
                      vars={v: "int" for v in dict.fromkeys(va)}, timeout=120, note=f"{a['mn']} == {b['mn']} with fixed operands"))
    return obs


def h_lazy_operands(params, vals, ctx):
    """Operand values that arrive through a symbol bound to a label defined after the instruction, used with
    coefficients -1 and 3, while the link base is not known yet (or known, for comparison)."""
    isa = _isa()
    b, k = vals["B"], vals["K"]
    require(0 <= b < 30000 and b % 2 == 0)
    require(-1000 < k < 1000)
    late = params.get("late", False)
    body = ("x = tbl + {K}\n"
            "c = 100.\n"
            "mov #c-x, r0\n"
            "mov #x*3 - x - x, @#x\n"
            "cmp -x(r1), x\n"
            "tbl: .word 0\n")
    text = (body + ".link {B}\n") if late else (".link {B}\n" + body)
    o = assemble([("a.mac", text)], vals, route=ctx.route, order=["B", "K"])
    ctx.observe_outcome(o)
    ctx.reach(o.status == "ok")
    if o.status != "ok" or o.errors or not (o.base == b):
        return False
    tbl = b + 4 + 6 + 6
    x = tbl + k
    v = {"X1": 100 - x, "X2": x, "T": x, "N1": -x, "R": 1}
    code = o.code
    if len(code) != 18:
        return False
    ok = decode_matches(isa, "mov", [{"kind": "g", "mode": 2, "reg": 7, "ext": "value", "x": "X1"}, {"kind": "g", "mode": 0, "reg": 0, "ext": None}], code[0:4], b, v)
    ok = ok and decode_matches(isa, "mov", [{"kind": "g", "mode": 2, "reg": 7, "ext": "value", "x": "X2"}, {"kind": "g", "mode": 3, "reg": 7, "ext": "value", "x": "X2"}], code[4:10], b + 4, v)
    ok = ok and decode_matches(isa, "cmp", [{"kind": "g", "mode": 6, "reg": 1, "ext": "value", "x": "N1"}, {"kind": "g", "mode": 6, "reg": 7, "ext": "pcrel", "x": "T"}], code[10:16], b + 10, v)
    return ok


def h_alias(params, vals, ctx):
    a, b = params["a"], params["b"]
    ta, va, expect, needs_base = build(a["mn"], a["forms"])
    tb, vb, _, _ = build(b["mn"], b["forms"])
    check_pre(vals, expect, needs_base)
    # map b's variables onto a's by order of kind (X.., R.., N, D, B)
    vals_b = {}
    for kind in ("X", "R"):
        an = [v for v in va if v.startswith(kind)]
        bn = [v for v in vb if v.startswith(kind)]
        for x, y in zip(an, bn):
            vals_b[y] = vals[x]
    for v in ("N", "D", "B"):
        if v in vals:
            vals_b[v] = vals[v]
    oa = assemble([("a.mac", ta)], vals, route=ctx.route)
    ob = assemble([("a.mac", tb)], vals_b, route=ctx.route)
    ctx.observe_outcome(oa)
    ctx.observe_outcome(ob)
    ctx.reach(oa.status == "ok")
    if oa.status != "ok" or ob.status != "ok":
        return False
    return oa.base == ob.base and oa.code == ob.code
