"""C13  Output containers carry exactly the image."""
import os
import struct

from ..common import require, notrace, concretize
from ..obligations import Ob
from ..symasm import assemble

P = "pdpverif.props.c13:"

META = {
    "claim": "raw == image; bin == LE(base) LE(len) image; the WAV frame is SYNC, bits(header=base,len,16-byte name), PAUSE, bits(image), "
             "[turbo PAUSE], bits(checksum), EOF with checksum == 16-bit end-around-carry sum; encode_data_bits demodulates (independent "
             "pulse-width reader) to the same bytes LSB first in order; make_wav_file is a well-formed 8-bit mono RIFF; tape names are padded "
             "to 16 bytes or refused; every make_* directive writes at the documented path with the documented container",
    "technique": "CrossHair symbolic execution of formats.*, bk_wav.* and metacommands.add_emitted_* as units with symbolic base/bytes/lengths; "
                 "z3 decides container layout, checksum and path for all values; independent demodulator / RIFF reader as oracle",
    "bounds": "raw/bin: base 0..65535, image of symbolic length <= 8 symbolic bytes; WAV frame: image = 257*k bytes of 0xFF (k = 0..16, i.e. "
              "every multiple of 65535 up to 16*65535 is reachable) followed by <= 3 symbolic bytes; bit encoder: one fully symbolic byte between "
              "concrete neighbours and two bytes with one symbolic bit each; RIFF: <= 8 symbolic bytes, any sample rate < 2^32; tape names: "
              "0..18 concrete letters + one symbolic character; paths: symbolic index into a catalogue of 9 suffixes x 3 directory forms",
    "outside": ["images longer than 8 symbolic bytes (other than the structured checksum family)", "real files are not written: open_device is a "
                "recording stub that always succeeds", "the complete pulse train with symbolic header fields (the bit encoder realises every "
                "bit): decided compositionally (frame with stubbed bit encoder + bit encoder alone); one concrete end-to-end tape is demodulated "
                "as a side check", "free symbolic file names (str.lower on symbolic text is not decided by CrossHair)"],
    "structure": "formats raw/bin/bk_wav/bk_turbo_wav; k in 0..16; directives make_bin, make_raw, make_wav, make_turbo_wav, make_bk0010_rom "
                 "with default / relative / absolute paths; directives whose operands are pending when met; empty and exact-fit tape names; -o / --implicit-bin through main_cli over 15 output names x 7 source names",
    "stubs": ["in the path obligations the two WAV container functions are replaced by a recorder of their arguments (pulse generation of a "
              "70k-sample pilot under tracing is out of budget and is covered by the frame/bits obligations)", "bk_wav.encode_data_bits replaced by a recorder in the framing/checksum obligations (its own correctness is a separate "
              "obligation on the real function)", "compiler.open_device -> in-memory recorder"],
}


def _mods():
    from pdpy11 import formats, bk_wav
    return formats, bk_wav


def h_bin(params, vals, ctx):
    formats, _ = _mods()
    base, data = vals["BASE"], vals["DATA"]
    require(0 <= base < 65536)
    require(len(data) <= params.get("maxlen", 8))
    r_bin = formats.file_formats["bin"](base, data)
    r_raw = formats.file_formats["raw"](base, data)
    ctx.observe(r_bin, r_raw)
    n = len(data)
    if len(r_raw) != n or len(r_bin) != n + 4:
        return False
    if not (r_bin[0] + 256 * r_bin[1] == base and r_bin[2] + 256 * r_bin[3] == n):
        return False
    for i in range(n):
        if not (r_raw[i] == data[i] and r_bin[4 + i] == data[i]):
            return False
    return True


def h_frame(params, vals, ctx):
    from ref import bk_tape
    formats, bk_wav = _mods()
    turbo = params["turbo"]
    k = params["k"]
    tail = vals["TAIL"]
    base = vals["BASE"]
    require(0 <= base < 65536)
    require(len(tail) <= params.get("maxtail", 3))
    name = params.get("name", "PROG            ").encode("ascii")
    code = b"\xff" * (257 * k) + tail
    real_bits = bk_wav.encode_data_bits
    bk_wav.encode_data_bits = lambda data, env: b"<" + bytes(data) + b">"
    try:
        blob = formats.file_formats["bk_turbo_wav" if turbo else "bk_wav"](base, code, name)
    finally:
        bk_wav.encode_data_bits = real_bits
    env = bk_wav.TurboEnv if turbo else bk_wav.Env
    n = len(code)
    total = 255 * 257 * k
    for i in range(len(tail)):
        total = total + tail[i]
    exp_cs = bk_tape.eac16_closed(total)
    ctx.observe(len(blob), exp_cs)
    hdr = struct.pack("<HH", 0, 0)  # placeholder for length computation only
    parts = [("SYNC", env.SYNC), ("hdr", 22), ("PAUSE", env.PAUSE), ("code", n + 2)]
    if turbo:
        parts.append(("PAUSE2", env.PAUSE))
    parts += [("cs", 4), ("EOF", env.EOF)]
    pos = 44
    for nm, spec in parts:
        ln = spec if isinstance(spec, int) else len(spec)
        seg = blob[pos:pos + ln]
        if len(seg) != ln:
            return False
        if not isinstance(spec, int):
            if not (seg == spec):
                return False
        elif nm == "hdr":
            if not (seg[0] == 60 and seg[21] == 62):
                return False
            if not (seg[1] + 256 * seg[2] == base and seg[3] + 256 * seg[4] == n and seg[5:21] == name):
                return False
        elif nm == "code":
            if not (seg[0] == 60 and seg[ln - 1] == 62 and seg[1:ln - 1] == code):
                return False
        elif nm == "cs":
            if not (seg[0] == 60 and seg[3] == 62 and seg[1] + 256 * seg[2] == exp_cs):
                return False
        pos += ln
    if pos != len(blob):
        return False
    # RIFF header consistent with the payload and the environment's sample rate
    with notrace():
        pass
    return (blob[0:4] == b"RIFF" and blob[4] + 256 * blob[5] + 65536 * blob[6] + 16777216 * blob[7] == len(blob) - 8
            and blob[24] + 256 * blob[25] + 65536 * blob[26] == env.sample_rate)


def h_bits(params, vals, ctx):
    from ref import bk_tape
    _, bk_wav = _mods()
    turbo = params["turbo"]
    env = bk_wav.TurboEnv if turbo else bk_wav.Env
    mode = params["mode"]
    if mode == "byte":
        x = vals["X"]
        require(0 <= x < 256)
        data = bytes(params["left"]) + bytes([x]) + bytes(params["right"])
    else:  # two bytes, one symbolic bit each (bit positions are parameters)
        p, q = vals["P"], vals["Q"]
        require(0 <= p <= 1 and 0 <= q <= 1)
        b0 = params["b0"] - (params["b0"] >> params["i"] & 1) * 2 ** params["i"] + p * 2 ** params["i"]
        b1 = params["b1"] - (params["b1"] >> params["j"] & 1) * 2 ** params["j"] + q * 2 ** params["j"]
        data = bytes([b0, b1])
    if params.get("after_other"):
        # one run that writes a normal and a turbo tape: the other format's encoder ran first in this process, on the same bytes
        other = bk_wav.Env if turbo else bk_wav.TurboEnv
        first = bk_wav.encode_data_bits(data, other)
        if not _demod_equal(first, data, not turbo):
            return False
    pulses = bk_wav.encode_data_bits(data, env)
    ctx.observe(pulses)
    return _demod_equal(pulses, data, turbo)


def _demod_equal(pulses, data, turbo):
    from ref import bk_tape
    from ..common import HAVE_CROSSHAIR, tracing_now
    if tracing_now():
        from crosshair.core import deep_realize
        pulses = deep_realize(pulses)
        data = deep_realize(data)
    with notrace():
        try:
            bits = (bk_tape.demod_turbo_bits if turbo else bk_tape.demod_normal_bits)(bytes(pulses))
            got = bk_tape.bits_to_bytes(bits)
        except AssertionError:
            return False
        return got == bytes(data)


def h_bits_concrete_ok(params, vals, ctx):
    return h_bits(params, vals, ctx)


def h_riff(params, vals, ctx):
    from ref import bk_tape
    _, bk_wav = _mods()
    data, rate = vals["DATA"], vals["RATE"]
    require(len(data) <= 8)
    require(0 < rate < 2 ** 32)
    blob = bk_wav.make_wav_file(data, rate)
    ctx.observe(blob)
    n = len(data)
    if len(blob) != 44 + n:
        return False

    def u32(i):
        return blob[i] + 256 * blob[i + 1] + 65536 * blob[i + 2] + 16777216 * blob[i + 3]

    def u16(i):
        return blob[i] + 256 * blob[i + 1]

    ok = (blob[0:4] == b"RIFF" and u32(4) == 36 + n and blob[8:16] == b"WAVEfmt " and u32(16) == 16 and u16(20) == 1 and u16(22) == 1
          and u32(24) == rate and u32(28) == rate and u16(32) == 1 and u16(34) == 8 and blob[36:40] == b"data" and u32(40) == n)
    if not ok:
        return False
    for i in range(n):
        if not (blob[44 + i] == data[i]):
            return False
    return True


def h_name(params, vals, ctx):
    n, cs = params["n"], params.get("charset", "utf-8")
    ch = vals["S_1"]
    require(len(ch) == 1)
    cp = ord(ch)
    require(cp < 0xD800 or cp >= 0xE100)
    require(0x20 <= cp < 0x100 or 0x7C0 <= cp < 0x840 or 0xFFC0 <= cp < 0x10040)
    require(ch not in "\"\\/'")
    directive = params.get("dir", "make_wav")
    if cs == "bk":
        c2 = concretize(cp)  # table codec: realise the code point first (one path per value of the windows)
        ch = chr(c2)
        vals = {**vals, "S_1": ch}
    if params.get("default_name"):
        text = f'{directive} "' + "A" * n + '{S_1}.wav"\n.word 1\n'
    else:
        text = f'{directive} "out.wav", "' + "A" * n + '{S_1}"\n.word 1\n'
    o = assemble([("/w/src/prog.mac", text)], vals, route=ctx.route, charset=cs)
    ctx.observe_outcome(o)
    ctx.reach(o.status in ("ok", "failed"))
    try:
        enc = ("A" * n + ch).encode(cs)
    except UnicodeEncodeError:
        return o.status == "failed" and "invalid-character" in o.error_ids
    fits = len(enc) <= 16
    if not fits:
        return o.status == "failed" and "too-long-string" in o.error_ids
    if o.status != "ok" or o.errors:
        return False
    ef = o.comp.emitted_files
    if len(ef) != 1:
        return False
    fmt, path, name = ef[0][2], ef[0][3], ef[0][4]
    exp = enc + b" " * (16 - len(enc))
    want_path = "/w/src/out.wav" if not params.get("default_name") else "/w/src/" + "A" * n + ch + ".wav"
    return fmt == ("bk_wav" if directive == "make_wav" else "bk_turbo_wav") and path == want_path and len(name) == 16 and name == exp


def h_name_fixed(params, vals, ctx):
    """Tape names given as concrete text (the empty name and the exact-fit names): padded to 16 bytes, never replaced by the file name."""
    x = vals["X"]
    require(-256 < x < 256)
    directive, name = params["dir"], params["name"]
    q = params.get("quote", '"')
    text = f'{directive} "tape.wav", {q}{name}{q}\n.byte {{X}}, 1\n'
    o = assemble([("/w/src/prog.mac", text)], vals, route=ctx.route, charset="utf-8")
    ctx.observe_outcome(o)
    ctx.reach(o.status == "ok")
    if o.status != "ok" or o.errors:
        return False
    ef = o.comp.emitted_files
    if len(ef) != 1:
        return False
    fmt, path, got = ef[0][2], ef[0][3], ef[0][4]
    want = name.encode("utf-8") + b" " * (16 - len(name.encode("utf-8")))
    return fmt == ("bk_wav" if directive == "make_wav" else "bk_turbo_wav") and path == "/w/src/tape.wav" and got == want


SUFFIXES = [".mac", ".MAC", ".Mac", ".ma", ".macx", ".bin", ".BIN", ".b", ""]
DIRS = ["/w/src", "/w/a.mac", "/"]
DIRECTIVES = {
    "make_bin": ("bin", "bin"), "make_bk0010_rom": ("bin", "bin"), "make_raw": ("raw", None),
    "make_wav": ("bk_wav", "wav"), "make_turbo_wav": ("bk_turbo_wav", "wav"),
}


class Recorder:
    def __init__(self):
        self.files = []

    def open_device(self, path, mode="rb", data_format=None):
        rec = self

        class F:
            def __init__(self):
                self.chunks = []

            def write(self, data):
                self.chunks.append(data)

            def __enter__(self):
                return self

            def __exit__(self, *a):
                rec.files.append((path, mode, self.chunks))
                return False
        return F()


def expected_path(src, arg, ext):
    if arg is None:
        p = src
        if p[-4:].lower() == ".mac":
            p = p[:-4]
        return p + ("." + ext if ext else "")
    if arg.startswith("/"):
        return arg
    return os.path.normpath(os.path.join(os.path.dirname(src), arg))


def h_path(params, vals, ctx):
    """Directive -> (path, container): source file name chosen by a symbolic index (realised)."""
    import pdpy11.compiler as C
    from pdpy11 import reports
    i = vals["I"]
    require(0 <= i < len(SUFFIXES) * len(DIRS))
    i = concretize(i)
    src = DIRS[i // len(SUFFIXES)].rstrip("/") + "/prog" + SUFFIXES[i % len(SUFFIXES)]
    d, arg = params["dir"], params.get("arg")
    x = vals["X"]
    require(-256 < x < 256)
    text = ".link {B}\n" + d + (f' "{arg}"' if arg is not None else "") + "\n.byte {X}, 2\n"
    b = vals["B"]
    require(0 <= b < 65536)
    o = assemble([(src, text)], vals, route=ctx.route, charset="utf-8")
    ctx.observe_outcome(o)
    ctx.reach(o.status == "ok")
    if o.status != "ok" or o.errors:
        return False
    fmt, ext = DIRECTIVES[d]
    want_path = expected_path(src, arg, ext)
    rec = Recorder()
    real = C.open_device
    C.open_device = rec.open_device
    diags = []
    real_formats = dict(C.file_formats)
    if fmt.startswith("bk_"):
        # pulse-train generation is the subject of the frame/bits obligations; here the call itself is recorded
        C.file_formats[fmt] = lambda base, code, name, _f=fmt: ("WAVCALL", _f, base, code, name)
    try:
        try:
            with reports.handle_reports(lambda p, ident, *r: diags.append(ident)):
                with notrace():
                    import contextlib, io
                    sink = io.StringIO()
                with contextlib.redirect_stderr(sink):
                    was, first = o.comp.emit_files(o.base, o.code)
        except reports.UnrecoverableError:
            return False
    finally:
        C.open_device = real
        C.file_formats.clear()
        C.file_formats.update(real_formats)
    if not was or first is None or first["path"] != want_path or first["format"] != fmt:
        return False
    if len(rec.files) != 1:
        return False
    path, mode, chunks = rec.files[0]
    if path != want_path or mode != "wb" or len(chunks) != 1:
        return False
    blob = chunks[0]
    img = [x % 256, 2]
    if fmt == "raw":
        return len(blob) == 2 and blob[0] == img[0] and blob[1] == img[1]
    if fmt == "bin":
        return (len(blob) == 6 and blob[0] + 256 * blob[1] == b and blob[2] + 256 * blob[3] == 2 and blob[4] == img[0] and blob[5] == img[1])
    # WAV: the container function is called with exactly (base, image, 16-byte tape name derived from the path)
    tag, f, cb, cc, cn = blob
    stem = want_path.split("/")[-1]
    if stem[-4:].lower() == ".wav":
        stem = stem[:-4]
    want_name = stem.encode("utf-8")[:16].ljust(16, b" ")
    return tag == "WAVCALL" and f == fmt and cb == b and len(cc) == 2 and cc[0] == img[0] and cc[1] == img[1] and cn == want_name


def h_path_include(params, vals, ctx):
    """An output directive inside an included file names its file relative to THAT file (and defaults to that file's name)."""
    import contextlib, io
    import pdpy11.compiler as C
    from pdpy11 import reports
    from ..common import BUILD
    from ..symasm import write_aux_file
    x, b = vals["X"], vals["B"]
    require(-256 < x < 256 and 0 <= b < 65536)
    d, arg = params["dir"], params.get("arg")
    sub = f"pinc_{d}_{'default' if arg is None else 'arg'}"
    root = os.path.join(BUILD, "aux", "c13", sub)
    write_aux_file(f"c13/{sub}/lib", "tape.mac", d + (f' "{arg}"' if arg is not None else "") + "\n.byte 7\n")
    main = os.path.join(root, "main.mac")
    o = assemble([(main, '.link {B}\n.byte {X}\n.include "lib/tape.mac"\n')], vals, route=ctx.route, charset="utf-8")
    ctx.observe_outcome(o)
    ctx.reach(o.status == "ok")
    if o.status != "ok" or o.errors:
        return False
    rec = Recorder()
    real, real_formats = C.open_device, dict(C.file_formats)
    C.open_device = rec.open_device
    for f in ("bk_wav", "bk_turbo_wav"):
        C.file_formats[f] = lambda base, code, name, _f=f: ("WAVCALL", _f, base, code, name)
    try:
        with reports.handle_reports(lambda p_, ident, *r: None):
            with contextlib.redirect_stderr(io.StringIO()):
                was, first = o.comp.emit_files(o.base, o.code)
    finally:
        C.open_device = real
        C.file_formats.clear()
        C.file_formats.update(real_formats)
    fmt, ext = DIRECTIVES[d]
    want = expected_path(os.path.join(root, "lib", "tape.mac"), arg, ext)
    return bool(was) and len(rec.files) == 1 and rec.files[0][0] == want and first["path"] == want and first["format"] == fmt


def h_multi(params, vals, ctx):
    """Several output directives in one source: one write per directive, in order, each with its own path, container and name."""
    import pdpy11.compiler as C
    from pdpy11 import reports
    import contextlib, io
    x, b = vals["X"], vals["B"]
    require(-256 < x < 256 and 0 <= b < 65536)
    dirs = params["directives"]  # [[directive, path, tape name or None], ...]
    if params.get("lazy"):
        # the last character of every path / tape name is spelled <SYMBOL>, the symbol being defined at the end of the source:
        # the directive cannot be evaluated when it is met and runs when the image is put together
        lines, defs = [], []
        for k, (d, p, n) in enumerate(dirs):
            line = f'{d} "{p[:-1]}"<LP{k}>'
            defs.append(f"LP{k} = {ord(p[-1])}.")
            if n is not None:
                line += f', "{n[:-1]}"<LN{k}>'
                defs.append(f"LN{k} = {ord(n[-1])}.")
            lines.append(line)
        text = ".link {B}\n" + "\n".join(lines) + "\n.byte {X}, 2\n" + "\n".join(defs) + "\n"
    else:
        text = ".link {B}\n" + "".join(f'{d} "{p}"' + (f', "{n}"' if n is not None else "") + "\n" for d, p, n in dirs) + ".byte {X}, 2\n"
    o = assemble([("/w/src/prog.mac", text)], vals, route=ctx.route, charset="utf-8")
    ctx.observe_outcome(o)
    ctx.reach(o.status == "ok")
    if o.status != "ok" or o.errors:
        return False
    rec = Recorder()
    real = C.open_device
    C.open_device = rec.open_device
    real_formats = dict(C.file_formats)
    for f in ("bk_wav", "bk_turbo_wav"):
        C.file_formats[f] = lambda base, code, name, _f=f: ("WAVCALL", _f, base, code, name)
    try:
        try:
            with reports.handle_reports(lambda p, ident, *r: None):
                with contextlib.redirect_stderr(io.StringIO()):
                    was, first = o.comp.emit_files(o.base, o.code)
        except reports.UnrecoverableError:
            return False
    finally:
        C.open_device = real
        C.file_formats.clear()
        C.file_formats.update(real_formats)
    if not was or len(rec.files) != len(dirs):
        return False
    if first["path"] != "/w/src/" + dirs[0][1] or first["format"] != DIRECTIVES[dirs[0][0]][0]:
        return False
    img = [x % 256, 2]
    for (d, p, n), (path, mode, chunks) in zip(dirs, rec.files):
        fmt = DIRECTIVES[d][0]
        if path != "/w/src/" + p or mode != "wb" or len(chunks) != 1:
            return False
        blob = chunks[0]
        if fmt == "raw":
            if not (len(blob) == 2 and blob[0] == img[0] and blob[1] == img[1]):
                return False
        elif fmt == "bin":
            if not (len(blob) == 6 and blob[0] + 256 * blob[1] == b and blob[2] + 256 * blob[3] == 2 and blob[4] == img[0] and blob[5] == img[1]):
                return False
        else:
            tag, f, cb, cc, cn = blob
            stem = p.split("/")[-1]
            if stem[-4:].lower() == ".wav":
                stem = stem[:-4]
            want_name = (n if n is not None else stem).encode("utf-8")[:16].ljust(16, b" ")
            if not (tag == "WAVCALL" and f == fmt and cb == b and len(cc) == 2 and cc[0] == img[0] and cc[1] == img[1] and cn == want_name):
                return False
    return True


OUTNAMES = ["/w/out/o.bin", "/w/out/O.BIN", "/w/sub.bin/Mixed.Bin", "/w/out/x.raw", "/w/out/noext", "/w/dir.bin/plain", "/w/out/a.bin.txt", "/w/out/.bin",
            "/w/out/bin", "rel/p.BiN", "-", "-.bin", "-.BIN", "-.raw", "/w/out/prog.wav"]
SRCNAMES = ["/w/src/prog.mac", "/w/src/PROG.MAC", "/w/src/p.Mac", "/w/src/p.asm", "/w/src/noext", "/w/src.mac/q", "/w/src/r.mac.mac"]


def h_cli_out(params, vals, ctx):
    """-o / --implicit-bin through the real main_cli: which file is written, in which container, with which bytes."""
    from .. import cli_harness as CH
    from ..symasm import render, inject
    import pdpy11.parser as PP
    i, j, x, b = vals["I"], vals["J"], vals["X"], vals["B"]
    require(0 <= i < len(OUTNAMES) and 0 <= j < len(SRCNAMES))
    require(-256 < x < 256 and 0 <= b < 65536)
    i, j = concretize(i), concretize(j)
    mode = params["mode"]
    src = SRCNAMES[j]
    tmpl = ".link {B}\n" + ('make_raw "d.raw"\n' if "directive" in mode else "") + ".byte {X}, 2\n"
    order = ["B", "X"]
    text = render(tmpl, order, vals, ctx.route)
    real_parse = PP.parse

    def parse_fn(path, t):
        with notrace():
            ast = real_parse(path, t)
            if ctx.route == "inject":
                inject(ast, order, vals)
        return ast

    kw = {}
    if mode.startswith("o"):
        kw["outfile"] = OUTNAMES[i]
    if "implicit" in mode:
        kw["implicit_bin"] = True
    if "two-files" in mode:
        # a second source file after the first: every default name is still derived from the FIRST file
        second = "/w/lib/zlib.mac"
        r = CH.run_cli([src, second], {src: text, second: ".byte 3\n"}, parse_fn=parse_fn, **kw)
    else:
        r = CH.run_cli([src], {src: text}, parse_fn=parse_fn, **kw)
    ctx.observe(r.exit, r.writes, r.crash)
    ctx.reach(r.crash is None and r.exit is None)
    if r.crash is not None or r.exit is not None:
        return False
    img = [x % 256, 2] + ([3] if "two-files" in mode else [])
    n_img = len(img)

    def is_image(blob, fmt):
        if fmt == "raw":
            return len(blob) == n_img and all(blob[i] == img[i] for i in range(n_img))
        return (len(blob) == 4 + n_img and blob[0] + 256 * blob[1] == b and blob[2] + 256 * blob[3] == n_img
                and all(blob[4 + i] == img[i] for i in range(n_img)))

    expect = []      # (path or None for stdout, container)
    if "directive" in mode:
        expect.append(("/w/src/d.raw" if not src.startswith("/w/src.mac") else "/w/src.mac/d.raw", "raw"))
    if mode.startswith("o"):
        name = OUTNAMES[i]
        fmt = "bin" if name.split("/")[-1].lower()[-4:] == ".bin" else "raw"
        expect.append((None if name in ("-", "-.bin", "-.BIN", "-.raw") else name, fmt))
    elif "implicit" in mode and "directive" not in mode:
        stem = src[:-4] if src.lower()[-4:] == ".mac" else src
        expect.append((stem + ".bin", "bin"))
    files = [e for e in expect if e[0] is not None]
    if len(r.writes) != len(files):
        return False
    for (path, fmt), (wpath, wmode, data) in zip(files, r.writes):
        if wpath != path or wmode != "wb" or not is_image(data, fmt):
            return False
    to_stdout = [e for e in expect if e[0] is None]
    if len(r.stdout) != len(to_stdout):
        return False
    for (_, fmt), data in zip(to_stdout, r.stdout):
        if not is_image(data, fmt):
            return False
    return True


def h_fulltape(params, vals, ctx):
    """Concrete end-to-end side check: the real encode_as_wav output is read back by the independent tape reader.
    K only selects one of a few concrete payloads so that the obligation has a solver verdict too."""
    from ref import bk_tape
    formats, _ = _mods()
    k = vals["K"]
    require(0 <= k < len(params["payloads"]))
    k = concretize(k)
    base, payload, name = params["payloads"][k]
    payload = bytes(payload)
    nm = name.encode("ascii").ljust(16, b" ")
    blob = formats.file_formats["bk_wav"](base, payload, nm)
    if tracingless := True:
        pass
    with notrace():
        try:
            rb, rl, rn, body, cs = bk_tape.read_tape(bytes(blob))
        except AssertionError:
            return False
        return (rb, rl, rn, body, cs) == (base, len(payload), nm, payload, bk_tape.eac16(payload))


def obligations(tier, seed):
    obs = []
    obs.append(Ob(oid="container/raw+bin", harness=P + "h_bin", params={"maxlen": 8 if tier == "thorough" else 6},
                  vars={"BASE": "int", "DATA": "bytes"}, timeout=400, pre="0<=BASE<65536, len(DATA)<=8"))
    ks = range(0, 17) if tier == "thorough" else [0, 1, 2, 3, 16]
    for turbo in (False, True):
        for k in ks:
            obs.append(Ob(oid=f"frame/{'turbo' if turbo else 'normal'}/k{k}", harness=P + "h_frame", params={"turbo": turbo, "k": k, "maxtail": 3 if tier == "thorough" else 2},
                          vars={"BASE": "int", "TAIL": "bytes"}, timeout=600, per_path=120,
                          pre="image = 257*k x 0xFF + TAIL, len(TAIL) <= 3"))
    for turbo in (False, True):
        t = "turbo" if turbo else "normal"
        obs.append(Ob(oid=f"bits/{t}/byte-middle", harness=P + "h_bits", params={"turbo": turbo, "mode": "byte", "left": [0x5A], "right": [0xC3]},
                      vars={"X": "int"}, timeout=600))
        obs.append(Ob(oid=f"bits/{t}/byte-middle/after-the-other-format", harness=P + "h_bits", params={"turbo": turbo, "mode": "byte", "left": [0x5A], "right": [0xC3], "after_other": True},
                      vars={"X": "int"}, timeout=900, per_path=120, pre="every byte value; the other format was encoded first in the same process"))
        obs.append(Ob(oid=f"bits/{t}/byte-alone", harness=P + "h_bits", params={"turbo": turbo, "mode": "byte", "left": [], "right": []},
                      vars={"X": "int"}, timeout=600))
        for (i, j) in [(0, 7), (7, 0), (3, 4)] if tier == "quick" else [(i, j) for i in range(8) for j in range(8)]:
            obs.append(Ob(oid=f"bits/{t}/two-bytes/{i}.{j}", harness=P + "h_bits",
                          params={"turbo": turbo, "mode": "bits", "b0": 0xA5, "b1": 0x3C, "i": i, "j": j}, vars={"P": "int", "Q": "int"}, timeout=200))
    obs.append(Ob(oid="riff/header", harness=P + "h_riff", params={}, vars={"DATA": "bytes", "RATE": "int"}, timeout=400))
    for n in (range(0, 19) if tier == "thorough" else [0, 13, 14, 15, 16, 18]):
        for d in ("make_wav", "make_turbo_wav"):
            if tier == "quick" and d == "make_turbo_wav" and n not in (15, 16):
                continue
            obs.append(Ob(oid=f"name/{d}/{n}", harness=P + "h_name", params={"n": n, "dir": d}, vars={"S_1": "str"}, timeout=600,
                          pre="name = n x 'A' + one symbolic character (utf-8), code point windows around the length boundaries"))
    for d in ("make_wav", "make_turbo_wav"):
        for nm, q in (("", '"'), ("", "'"), ("", "/"), (" ", '"'), ("A" * 16, '"'), ("tape", '"'), ("MUSIC.WAV", '"'), ("a.wav", '"'), (".wav", '"')):
            obs.append(Ob(oid=f"name/fixed/{d}/{len(nm)}" + {34: "dq", 39: "sq", 47: "sl"}[ord(q)] + ("-wav-suffix" if nm.lower().endswith(".wav") else ""), harness=P + "h_name_fixed", params={"dir": d, "name": nm, "quote": q},
                          vars={"X": "int"}, timeout=300))
    for n in (3, 15):
        obs.append(Ob(oid=f"name/bk-charset/explicit/{n}", harness=P + "h_name", params={"n": n, "dir": "make_wav", "charset": "bk"}, vars={"S_1": "str"}, timeout=900))
        obs.append(Ob(oid=f"name/bk-charset/from-path/{n}", harness=P + "h_name", params={"n": n, "dir": "make_turbo_wav", "charset": "bk", "default_name": True},
                      vars={"S_1": "str"}, timeout=900))
    for d in DIRECTIVES:
        for arg in (None, "out/x.dat", "../y.bin", "/abs/z.raw", "~rom", "~disk image"):
            if tier == "quick" and arg in ("../y.bin", "~disk image") and d not in ("make_bin", "make_wav"):
                continue
            if arg and arg.startswith("~") and d in ("make_wav", "make_turbo_wav"):
                continue   # (the tape name derived from such a path is not the subject here)
            obs.append(Ob(oid=f"path/{d}/{arg or 'default'}".replace("/", "_").replace("path_", "path/", 1), harness=P + "h_path",
                          params={"dir": d, "arg": arg}, vars={"I": "int", "X": "int", "B": "int"}, timeout=900, per_path=120))
    for d in DIRECTIVES:
        for arg in (None, "out/t.dat"):
            if tier == "quick" and arg is not None and d not in ("make_bin", "make_wav"):
                continue
            obs.append(Ob(oid=f"path-in-include/{d}/{'default' if arg is None else 'relative'}", harness=P + "h_path_include", params={"dir": d, "arg": arg},
                          vars={"X": "int", "B": "int"}, timeout=300))
    multis = [
        [["make_wav", "a.wav", "ONE"], ["make_wav", "b.wav", "TWO"]],
        [["make_turbo_wav", "t1.wav", None], ["make_turbo_wav", "sub/t2.wav", None], ["make_wav", "n.wav", "N"]],
        [["make_bin", "x.bin", None], ["make_raw", "x.raw", None], ["make_wav", "x.wav", "NAME"], ["make_bin", "y.bin", None]],
        [["make_raw", "first.dat", None], ["make_bk0010_rom", "rom.bin", None]],
    ]
    for i, m in enumerate(multis):
        obs.append(Ob(oid=f"multi/{i}", harness=P + "h_multi", params={"directives": m}, vars={"X": "int", "B": "int"}, timeout=600))
        obs.append(Ob(oid=f"multi-lazy/{i}", harness=P + "h_multi", params={"directives": m, "lazy": True}, vars={"X": "int", "B": "int"}, timeout=600,
                      note="paths and names end in <SYMBOL> defined at the end of the source"))
    for mode in ("o", "implicit", "o+implicit", "o+directive", "implicit+directive", "directive", "implicit+two-files", "o+two-files"):
        obs.append(Ob(oid=f"cli/{mode}", harness=P + "h_cli_out", params={"mode": mode}, vars={"I": "int", "J": "int", "X": "int", "B": "int"}, timeout=900, per_path=120,
                      pre="-o from a 15-name catalogue x source from a 7-name catalogue (indices realised), image byte and base symbolic"))
    payloads = [[0o1000, [0x10, 0x42], "test"], [0o40000, list(range(1, 40)), "LONGER-NAME-16ch"], [0, [], ""], [0o177776, [0xFF] * 300, "ff"]]
    obs.append(Ob(oid="fulltape/concrete", harness=P + "h_fulltape", params={"payloads": payloads}, vars={"K": "int"}, timeout=900, per_path=300,
                  note="concrete side check: whole pulse train read by ref.bk_tape.read_tape"))
    return obs
