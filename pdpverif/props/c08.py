"""C08  Every input ends in a result or a reported error."""
import itertools
import random

import os

from ..common import require, BUILD
from ..obligations import Ob
from ..symasm import assemble, write_aux_file

AUX = os.path.join(BUILD, "aux", "c08")

P = "pdpverif.props.c08:"

META = {
    "claim": "for every enumerated program structure and ALL values of its numeric leaves, assembling ends either in success without an "
             "error-severity diagnostic or in failure with at least one; it never raises another exception (the 'internal compiler error' path) "
             "and a concrete instance of every structure terminates under a wall-clock watchdog",
    "technique": "grammar-directed enumeration of statement/operand/expression structure; CrossHair symbolic execution of parser(concrete)+"
                 "Compiler on each structure with symbolic numeric leaves; z3 decides that no value reaches a non-diagnostic exception",
    "bounds": "one to five statements; operand trees of depth <= 2 over 13 leaf kinds and all operators/brackets/prefixes/postfixes/calls; every "
              "instruction signature class and every directive; wrong operand kinds and counts; definitional cycles of length 1..3 through "
              "assignments, labels and sizes; statements inside .repeat; numeric leaves: |v| <= 300 (branch fields and remainders are realised bit by bit), except in programs where a leaf can become a length, a count "
              "or a bit pattern: |v| <= 24",
    "outside": ["numbers of more than 4300 decimal digits (e.g. '1 << 20000.'): CPython refuses to print them, the value-out-of-bounds message "
                "crashes; recorded as known finding C08-int-str-digits-limit and pinned by obligation huge/*",
                "character- and token-level mutation of source text (text is concrete for the regex parser)", "programs above 5 statements",
                "resource exhaustion by astronomically large counts (e.g. '.align 10**11' asks for a 100 GB fill): excluded by the count bound",
                "termination is only ever refuted (watchdog), never proved"],
    "structure": "about 250 token-level oddities (wrong operand kinds, malformed labels/assignments, unbalanced brackets, malformed numbers and "
                 "literals, dangling operators, odd white space and characters) each alone, in context and at end of file; quick: depth <= 1 exhaustive per head representative + seeded depth 2 (about 1300 structures); thorough: about 9000; 10 nets of files that include themselves or each other (with and without .once); .extern of names nobody defines; 9 failing programs x 8 -W selections x 2 report formats through main_cli (a failing run prints a diagnostic)",
    "stubs": [],
}

LEAVES = ["17", "17.", "18", "0x1F", "'a", ".", "DEF", "UNDEF", "FWD", "r1", "%{V1}", "{V1}", "{V2}", "\"ab\"", "1$", "^Rabc", "<{V2}>"]
INFIX = ["+", "-", "*", "/", "%", "<<", ">>", "_", "&", "^", "|", "!"]
HEADS = [
    "nop", "clr {E}", "mov {E}, {F}", "jsr {E}, {F}", "mul {E}, {F}", "rts {E}", "br {E}", "sob {E}, {F}", "trap {E}", "spl {E}", "mark {E}",
    "ldf {E}, {F}", "stf {E}, {F}", "clrf {E}", "ldexp {E}, {F}", "stexp {E}, {F}", "fadd {E}", "xor {E}, {F}", "pop {E}", "push {E}", "call {E}",
    ".byte {E}", ".word {E}, {F}", ".dword {E}", "W7: {E}, {F}", ".ascii {E}", ".asciz {E}", ".rad50 {E}", ".blkb {E}", ".blkw {E}", ".even", ".odd",
    ".align {E}", ". = {E}", ".link {E}", ".repeat {E} { .word {F} }", ".repeat 2 { L9: nop }", ".repeat 2 { Q = {E} }", "insert_file {E}",
    ".include {E}", ".extern {E}", ".end", ".once", ".error {E}", ".list {E}", ".title {E}", ".ident {E}", ".page", "make_bin {E}", "make_raw {E}",
    "make_wav {E}, {F}", "make_turbo_wav {E}", "make_bk0010_rom {E}", "X9 = {E}", "X9 == {E}", "L8: {E}", "mov {E}", "mov {E}, {F}, {E}",
    "nop {E}", ".even {E}", ".byte", ".word", "frob {E}", ".frob {E}", "word {E}", "r1 {E}", "mov r1 r2", "W8: {E}",
]
CONTEXT = "DEF = 5\nSELF = SELF + 1\n"  # FWD is defined after the statement under test
CONTEXT_NOSELF = "DEF = 5\n"
TAIL = "\nFWD = 7\n1$: .word 0\n"

CYCLES = [
    "a = a\n.word a\n", "a = a + 1\n.word a\n", "a = b\nb = a\n.word a\n", "a = b\nb = c\nc = a + {V1}\n.word c\n", "a = b\nb = a\n",
    "lbl: .blkb n\nn = lbl2 - lbl\nlbl2:\n", "x: .blkb y-x\ny:\n", ".blkb a\na: .word 0\n", ".link x\nx = y\ny = x\n", ".link a\na:\n",
    ". = . + q\nq = e - .\ne:\n", "s = t * 2\nt = s / 2 + {V1}\n.byte s\n", ".repeat r { nop }\nr = e - b\nb: .word 0\ne:\n",
    "a: .blkb b - a\nb: .blkb a - b + {V1}\n", "mov #a, r0\na = a\n", "c = a\na = a\n", "c = a\na = b\nb = a\n", "mov #c, r0\nc = a\na = a\n",
    "c = a + {V1}\nd = c\na = b\nb = a\n.word d\n", "a = a\nc = a\n", ".align a\na:\n", "a = . + a\n", "br a\na = a + 2\n",
]


TOKENS = [
    # operands of the wrong kind / count for directives
    '.blkb "ab"', ".ascii 5", ".asciz", '.align "x"', '.repeat "a" { nop }', '.link "s"', "make_bin 5", ".extern 5", '.extern "s"', ".extern", ".include 5",
    ".include", "insert_file", ".rad50 5", ".rad50", ".byte \"ab\"", ".word \"abc\"", ".dword 'a, \"bc", ".end 5", ".once 5", ".even 1, 2", ".blkb", ".blkb 1, 2",
    ".link", ".link 1, 2", ". = ", ". == 5", ". = \"a\"", ".title", ".error", ".list 1, 2, 3", "make_wav 1, 2", 'make_wav "a", "b", "c"', ".page 5",
    # labels and assignments
    "1$ = 5", "r0 = 5", "R7 == 1", "r0: nop", "sp:: nop", "mov: nop", ".word: nop", "a ==", "a =", "= 5", "::", "a::: nop", "5: nop", "99999999999: nop",
    "a = b = 5", "a: b: c: nop", "a: = 5", "x.y = 1", "$ = 1", "_ = 1", "a$b: .word a$b", ".: nop", "1$: 1$: nop", "a = 1\na = 2", "a: nop\na = 2", "a = 1\na: nop",
    # brackets
    "(", ")", "<", ">", "^/", "mov (r0", "mov r0)", ".word <1", ".word 1>", ".word ^/1", "{", "}", "nop }", ".repeat 2 {", ".word ((((((((1))))))))",
    ".word <<<<1>>>>", ".word ^/^|^:1:|/", ".word ()", ".word <>", ".word ^//", "mov (r0)(r1), r2", "mov ((r0)), r1", "mov (r0)+(r1), r2", "mov @@r0, r1",
    "mov ##1, r1", "mov #@1, r1", "mov @#@#1, r0", "mov -(r0)+, r1", "mov -(r0)-, r1", "mov (r0)++, r1", "mov +(r0), r1", "mov %8, r0", "mov %-1, r0", "mov %r0, r1",
    # numbers and literals
    ".word 0x", ".word 0b2", ".word ^X", ".word ^Xg", ".word 1e5", ".word 1.5", ".word 1..", ".word ..", ".word .5", ".word 0o8", ".word ^D", ".word ^R", ".word ^Rabcd",
    ".word ^R#", ".word ^B102", ".word 0b", ".word 08", ".word 8.", ".word 1$", ".word 1$$", ".word 0x1G", ".word 0X", ".word ^d5", ".word ^C", ".word ^C^C1", ".word ^",
    ".word '", ".word \"", ".word 'ab", ".word \"a", ".word ''", ".word '\\", ".word \"\\x", ".word '\\x4", ".word '\t", ".word 'a'", ".word \"ab\"", ".word '\u65e5", ".word \"\u65e5\u672c",
    # operators
    ".word 1 +", ".word +", ".word 1 + + 2", ".word * 2", ".word 1 2", ".word (1)(2)", ".word 1(2)(3)", ".word %", ".word #", ".word @", ".word -", ".word ~", ".word 1 << ",
    ".word 1 <<< 2", ".word 1 >>> 2", ".word 1 <> 2", ".word 1 || 2", ".word 1 && 2", ".word 1 ** 2", ".word 1 // 2", ".word !1", ".word 1 ! ", ".word 1 _", ".word _1", ".word 1 $ 2",
    ".word 1,", ".word ,1", ".word 1,,2", ".word ,", "mov ,", "mov r0,", "mov , r0", "mov r0,, r1", "mov r0 r1", "mov r0, r1, ", "mov r0, r1 r2", "nop nop", "nop nop nop", "mov r0, r1 nop",
    # white space, comments, odd characters
    ";", "nop;x", "\t", "nop\r", "nop\r\nnop\r", "nop\x0c", "nop\x00", "\ufeffnop", "nop\u00a0nop", "nop\u2028nop", "mov\tr0\t,\tr1", "mov r0,\nr1", "mov\nr0, r1", ".word 1 +\n2",
    ".word 1\n+ 2", ".byte 1 ; c\n, 2", "a:\n\n\nb:\n.word a, b", "\u0416: nop", ".word \u0416", "mov r0, r1 ; \u65e5\u672c", "nop ; {", "nop ; \"", ".ascii \";\"", ".ascii /a;b/ ; c",
]


def wrap(kind, a, b=None):
    return {
        "(": f"({a})", "<": f"<{a}>", "^/": f"^/{a}/", "#": f"#{a}", "@": f"@{a}", "@#": f"@#{a}", "neg": f"-{a}", "inv": f"~{a}", "^C": f"^C {a}",
        "call": f"{a}({b})", "post+": f"({a})+", "post-": f"{a}-", "pre-(": f"-({a})", "@(+": f"@({a})+", "reg": f"%{a}",
    }[kind]


UNARY_NODES = ["(", "<", "^/", "#", "@", "@#", "neg", "inv", "^C", "post+", "post-", "pre-(", "@(+", "reg"]


def gen_exprs(rnd, depth, n):
    """n seeded expression texts of exactly the given depth."""
    out = []
    for _ in range(n):
        def g(d):
            if d == 0:
                return rnd.choice(LEAVES)
            r = rnd.random()
            if r < 0.45:
                return g(d - 1) + " " + rnd.choice(INFIX) + " " + g(rnd.randint(0, d - 1))
            if r < 0.85:
                return wrap(rnd.choice(UNARY_NODES), g(d - 1))
            return wrap("call", g(d - 1), g(rnd.randint(0, d - 1)))
        out.append(g(depth))
    return out


PATH_HEADS = ("insert_file", ".include", "make_bin", "make_raw", "make_wav", "make_turbo_wav", "make_bk0010_rom")
COUNT_MARKS = (".blkb", ".blkw", ".align", ". =", ".repeat", "<{", "<<", ">>", " _ ", "&", "^", "|", "!", ".ascii", ".asciz", ".rad50", ".link")


def program(head, e, f, ctxt=True):
    if head.startswith(PATH_HEADS):
        # a symbolic character inside a file path only exercises os.path with a proxy (CrossHair limitation, not pdpy11)
        e = e.replace("{V1}", "101").replace("{V2}", "102")
        f = f.replace("{V1}", "101").replace("{V2}", "102")
    stmt = head.replace("{E}", e).replace("{F}", f)
    uses_self = "SELF" in stmt
    return (CONTEXT if uses_self else CONTEXT_NOSELF) + stmt + TAIL if ctxt else stmt + "\n"


def h_total(params, vals, ctx):
    text = params["text"]
    for v in ("V1", "V2"):
        if v in vals:
            require(-params.get("vmax", 300) <= vals[v] <= params.get("vmax", 300))
    o = assemble([("/w/a.mac", text)], vals, route=ctx.route, charset=params.get("charset", "bk"))
    ctx.observe_outcome(o)
    ctx.reach(True)
    if o.status == "ok":
        return len(o.errors) == 0
    if o.status == "failed":
        return len(o.errors) >= 1
    return False


# files that include each other: name -> text ({V1} only in the main file)
INCLUDE_NETS = {
    "self": ({"s.mac": '.include "s.mac"\n.word 1\n'}, "s.mac", "failed"),
    "self-once": ({"so.mac": '.once\n.include "so.mac"\n.word 1\n'}, "so.mac", "ok"),
    "mutual": ({"ma.mac": '.word 1\n.include "mb.mac"\n', "mb.mac": '.include "ma.mac"\n.word 2\n'}, "ma.mac", "failed"),
    "mutual-once": ({"oa.mac": '.once\n.word 1\n.include "ob.mac"\n', "ob.mac": '.once\n.include "oa.mac"\n.word 2\n'}, "oa.mac", "ok"),
    "mutual-half-once": ({"ha.mac": '.once\n.word 1\n.include "hb.mac"\n', "hb.mac": '.include "ha.mac"\n.word 2\n'}, "ha.mac", "ok"),
    "ring-3": ({"r1.mac": '.include "r2.mac"\n', "r2.mac": 'nop\n.include "r3.mac"\n', "r3.mac": '.include "r1.mac"\n'}, "r1.mac", "failed"),
    "diamond": ({"d0.mac": '.include "d1.mac"\n.include "d2.mac"\n', "d1.mac": '.include "d3.mac"\n', "d2.mac": '.include "d3.mac"\n', "d3.mac": ".word 3\n"}, "d0.mac", "ok"),
    "chain-20": ({**{f"c{i}.mac": f'.include "c{i + 1}.mac"\n.byte {i}.\n' for i in range(20)}, "c20.mac": ".byte 20.\n"}, "c0.mac", "ok"),
    "self-in-repeat": ({"rp.mac": '.repeat 2 { .include "rp.mac" }\n'}, "rp.mac", "failed"),
    # a statement of the included file fails after the file has defined labels
    "fail-after-label": ({"f1.mac": "lbl: nop\njsr 5, lbl\n.word lbl\n"}, "f1.mac", "failed"),
    "fail-range-after-label": ({"f2.mac": "L2: .word L2\n.byte 400\nM2: .word M2 - L2\n"}, "f2.mac", "failed"),
    "fail-operand-count-after-label": ({"f3.mac": "L3:: nop\nmov #1\n"}, "f3.mac", "failed"),
    "fail-nested": ({"f4.mac": 'L4: nop\n.include "f1.mac"\n.word L4\n', "f1.mac": "lbl: nop\njsr 5, lbl\n.word lbl\n"}, "f4.mac", "failed"),
    "fail-user-error": ({"f5.mac": "L5: .word L5\n.error stop\nN5:\n"}, "f5.mac", "failed"),
    "self-twice": ({"st.mac": '.include "st.mac"\n.word 1\n.include "st.mac"\n'}, "st.mac", "failed"),
    "ping-pong-twice": ({"pa.mac": '.include "pb.mac"\n.include "pb.mac"\n', "pb.mac": '.include "pa.mac"\nnop\n.include "pa.mac"\n'}, "pa.mac", "failed"),
    # an included file that sets its own base
    "inc-own-link": ({"il.mac": ".link 3000\nIL: .word IL\n"}, "il.mac", "ok"),
    "inc-own-dot-base": ({"idb.mac": ". = 3000\nID: .word ID\n"}, "idb.mac", "ok"),
    "inc-own-link-in-repeat": ({"ilr.mac": '.repeat 2 { .include "il2.mac" }\n', "il2.mac": ".link 3000\n.word 1\n"}, "ilr.mac", "any"),
    "inc-own-link-late": ({"ill.mac": "IL3: .word IL3\n.link 3000\n"}, "ill.mac", "ok"),
    "self-lazy-path": ({"lz.mac": '.include "lz.ma"<CH>\nCH = 155\n'}, "lz.mac", "failed"),
}


def h_include_net(params, vals, ctx):
    """Source files that include themselves or each other: an answer (the '.once'-guarded ones assemble), never a crash or a hang."""
    require(-65536 < vals["V1"] < 65536)
    files, main, expect = INCLUDE_NETS[params["net"]]
    for n, t in files.items():
        write_aux_file("c08", n, t)
    o = assemble([(os.path.join(AUX, "main_" + main), '.include "%s"\n.even\n.word {V1}\n' % main)], vals, route=ctx.route)
    ctx.observe_outcome(o)
    ctx.reach(True)
    if o.status == "ok":
        return expect in ("ok", "any") and len(o.errors) == 0
    if o.status == "failed":
        return expect in ("failed", "any") and len(o.errors) >= 1
    return False


SAYS_WHY = [".byte #{V1}\n", ".word 18 + {V1}\n", "mov #{V1}\n", "frob {V1}\n", "clrf r6\n.word nosuch + {V1}\n", ".ascii\n.error {V1}\n",
            "mov @r1, r0\n.word UNDEF + {V1}\n", "trap #{V1}, 1\n", ".word {V1}\n.include \"no-such.mac\"\n"]
SAYS_WHY_W = [None, ["all"], ["no-all"], ["no-excess-hash"], ["no-implicit-accumulator", "no-legacy-deferred"], ["all", "no-all"], ["no-default"], ["error"]]


def h_cli_says_why(params, vals, ctx):
    """A failing CLI run says why, whatever the -W selection and report format: exit status 1 comes with at least one printed diagnostic."""
    from .. import cli_harness as CH
    from ..common import concretize, notrace
    from ..symasm import render, inject
    import pdpy11.parser as PP
    require(0 <= vals["W"] < len(SAYS_WHY_W) and 0 <= vals["F"] < 2)
    require(-300 <= vals["V1"] <= 300)
    w, f = concretize(vals["W"]), concretize(vals["F"])
    order = ["V1"]
    text = render(SAYS_WHY[params["k"]], order, vals, ctx.route)
    real_parse = PP.parse

    def parse_fn(path, t):
        with notrace():
            ast = real_parse(path, t)
            if ctx.route == "inject":
                inject(ast, order, vals)
        return ast

    src = "/w/src/a.mac"
    r = CH.run_cli([src], {src: text}, outfile="/w/out/o.bin", report_format=CH.FORMATS[f], warnings=SAYS_WHY_W[w], parse_fn=parse_fn)
    said = [c for c in r.stdout if isinstance(c, str) and c.strip()]
    said_err = len(r.stderr_chunks) > 0
    ctx.observe(r.exit, r.crash, len(r.writes), len(r.stderr_chunks), len(said))
    ctx.reach(r.exit == 1)
    if r.crash is not None:
        raise AssertionError("internal error escaped main_cli: " + str(r.crash))
    if r.exit == 1:
        return (len(said) > 0 or said_err) and r.writes == []
    # not a failure: then it is a success with its file
    return r.exit is None and len(r.writes) == 1


def _ob(tag, text, **kw):
    vars_ = {v: "int" for v in ("V1", "V2") if "{" + v + "}" in text}
    if not vars_:
        vars_ = {"V1": "int"}  # a dummy symbolic so that the obligation is still explored by the engine
    if any(m in text for m in COUNT_MARKS):
        kw.setdefault("vmax", 24)  # the value can become a length, a count or a realised bit pattern
    if any(("\n" + m) in text for m in ("br ", "sob ", "trap ", "spl ", "mark ", "emt ")) and any(m in text for m in (" % ", " / ", " * ")):
        kw["vmax"] = min(kw.get("vmax", 300), 24)  # an opcode field computed from a quotient/remainder is realised bit by bit through string theory
    if any(m in text for m in ('"ab" / {', '"ab" % {')):
        kw["vmax"] = min(kw.get("vmax", 300), 24)  # a symbolic divisor is enumerated value by value; 25185 // v differs for each of them
    if len(vars_) == 2 and any(m in text for m in (" & ", " ^ ", " | ", " ! ")):
        kw["vmax"] = 3  # both operands of a bitwise operator are realised
    if len(vars_) == 2 and any(m in text for m in (".align", ".blkb", ".blkw", ".repeat", ". =")):
        kw["vmax"] = min(kw.get("vmax", 24), 6)  # two realised leaves under a count
    return Ob(oid=tag, harness=P + "h_total", params={"text": text, "hang_probe": True, **kw}, vars=vars_, timeout=200, per_path=40,
              note=text.replace("\n", " / ")[:200])


def obligations(tier, seed):
    rnd = random.Random(800 + seed)
    obs = []
    seen = set()

    import re as _re
    huge = _re.compile(r"(<<|_)[^,\n{]*(\"ab\"|'a|\^Rabc|0x1F|101|17\.|\.)")

    def add(tag, text, **kw):
        if text in seen:
            return
        if tag != "huge" and huge.search(text):
            # a shift by thousands of bits makes a number of more than 4300 decimal digits, which Python itself refuses to
            # print: that case is pinned by the dedicated obligation 'huge/...' (known finding) instead of random ones
            return
        seen.add(text)
        obs.append(_ob(f"{tag}/{len(obs)}", text, **kw))

    # depth 0/1: every head x every leaf (second operand a plain register or number)
    for head in HEADS:
        for leaf in LEAVES + ["SELF"]:
            if tier == "quick" and (leaf == "SELF" and head not in ("clr {E}", ".word {E}, {F}", ".link {E}", ".blkb {E}", "br {E}", "X9 = {E}")):
                continue
            if tier == "quick" and leaf != "SELF" and rnd.random() < 0.5:
                continue
            add("d0", program(head, leaf, "r2" if "{F}" in head else ""))
        if tier == "thorough":
            for leaf in LEAVES:
                add("d0f", program(head, "r2", leaf))
    d1 = []
    for kind in UNARY_NODES:
        for leaf in LEAVES:
            d1.append(wrap(kind, leaf))
    for op in INFIX:
        for a, b in (("{V1}", "{V2}"), ("DEF", "UNDEF"), (".", "FWD"), (".", "{V2}"), ("1$", "{V1}"), ("<1$ - .>", "{V2}"), ("{V1}", "."), ("r1", "{V1}"), ("'a", "17."), ("18", "{V2}"), ("\"ab\"", "{V1}"), ("SELF", "1$")):
            d1.append(f"{a} {op} {b}")
    for a, b in (("{V1}", "r1"), ("DEF", "%{V2}"), ("{V1}", "{V2}"), ("r1", "r2"), (".", "pc"), ("UNDEF", "sp")):
        d1.append(wrap("call", a, b))
    heads1 = HEADS if tier == "thorough" else ["clr {E}", "mov {E}, {F}", "br {E}", "sob {E}, {F}", "trap {E}", "ldf {E}, {F}", ".byte {E}", ".word {E}, {F}",
                                                 ".ascii {E}", ".rad50 {E}", ".blkb {E}", ".align {E}", ". = {E}", ".link {E}", ".repeat {E} { .word {F} }",
                                                 "X9 = {E}", "{E}, {F}", "jsr {E}, {F}", "stexp {E}, {F}", "make_wav {E}, {F}", ".include {E}"]
    for head in heads1:
        for e in d1:
            if rnd.random() < (0.93 if tier == "quick" else 0.6):
                continue
            if head.startswith((".repeat", ".blkb", ".blkw", ".align")) and any(m in e for m in ("<<", "_", "*", ". ", "\"")):
                continue  # astronomically large counts are resource exhaustion, not logic (see 'outside')
            add("d1", program(head, e, rnd.choice(["r2", "{V2}", "(r3)+", "FWD"]) if "{F}" in head else ""))
    # depth 2 (seeded)
    n2 = 3000 if tier == "thorough" else 300
    plain_heads = [h for h in HEADS if not h.startswith((".repeat", ".blkb", ".blkw", ".align"))]
    for e in gen_exprs(rnd, 2, n2):
        head = rnd.choice(plain_heads)
        add("d2", program(head, e, rnd.choice(LEAVES + d1[:40]) if "{F}" in head else ""))
    # multi-statement mixes
    for k in range(400 if tier == "thorough" else 60):
        parts = []
        for _ in range(rnd.randint(2, 4)):
            h = rnd.choice(HEADS)
            if h.startswith((".repeat", ".blkb", ".blkw", ".align")):
                parts.append(h.replace("{E}", rnd.choice(["{V1}", "17", "DEF", "UNDEF", "FWD"])).replace("{F}", rnd.choice(LEAVES)))
            else:
                e, f = rnd.choice(LEAVES + d1), rnd.choice(LEAVES)
                if h.startswith(PATH_HEADS):
                    e, f = e.replace("{V1}", "101").replace("{V2}", "102"), f.replace("{V1}", "101").replace("{V2}", "102")
                parts.append(h.replace("{E}", e).replace("{F}", f))
        add("multi", CONTEXT_NOSELF + "\n".join(parts) + TAIL)
    # string operands: escapes (complete, truncated, unknown), unterminated strings, other quote characters, raw <n> bytes,
    # characters the output charset cannot encode -- also as the very last thing in the file
    strings = ['"ab"', '"ab\\x4"', '"a\\x"', '"a\\q"', '"a\\n\\x41\\\\"', '"\u65e5\u672c"', "/ab/", "'ab'", '"ab', '<{V2}>', '"a" <{V2}> "b"', '""', '"ab\\']
    for head in (".ascii {E}", ".asciz {E}", ".rad50 {E}", ".error {E}", "make_wav {E}, {F}", "make_wav \"o.wav\", {E}", "insert_file {E}", ".include {E}",
                 ".ident {E}", ".title {E}", ".word {E}", "mov #{E}, r0"):
        for e in strings:
            add("str", program(head, e, '"ab"'))
            e2 = e.replace("{V2}", "102") if head.startswith(PATH_HEADS) else e
            add("str-eof", head.replace("{E}", e2).replace("{F}", '"x"'))  # no trailing newline, nothing after it
    # code blocks where they are and are not expected
    for head in HEADS:
        if "{ " in head:
            continue
        stmt = head.replace("{E}", "{V1}").replace("{F}", "r2")
        add("block", CONTEXT_NOSELF + stmt + " { nop }" + TAIL)
    for stmt in (".repeat {V1}, {V2} { nop }", ".repeat { nop }", ".repeat {V1}", ".repeat {V1} { .repeat {V2} { nop } }", ".repeat 2 { .repeat 2 { .repeat 2 { .byte {V1} } } }",
                 ".repeat {V1} { .end }", ".repeat 2 { .include \"nofile\" }", ".repeat 2 { .link {V1} }", ".repeat 2 { . = . + {V1} }", "{ nop }", ".repeat 2 { nop",
                 "DEF {V1} { nop }", "DEF { nop }", "FWD {V1} { nop }", "DEF, {V1} { nop }", "DEF ({V1}) { nop }", "1$ { nop }", "nosuch {V1} { nop }", "DEF: { nop }"):
        add("block", CONTEXT_NOSELF + stmt + TAIL)
    # token-level oddities (concrete structure; one dummy symbolic so that the engine still explores): alone, in context, at end of file
    for t in TOKENS:
        add("tok", t + "\n")
        if tier == "thorough" or rnd.random() < 0.4:
            add("tok-ctx", CONTEXT_NOSELF + t + TAIL)
        if tier == "thorough" or rnd.random() < 0.4:
            add("tok-eof", "nop\n" + t)
    for k in range(len(SAYS_WHY)):
        obs.append(Ob(oid=f"cli-says-why/{k}", harness=P + "h_cli_says_why", params={"k": k}, vars={"V1": "int", "W": "int", "F": "int"}, timeout=600, per_path=60,
                      note=SAYS_WHY[k].replace("\n", " / ") + " x 8 -W selections x 2 report formats"))
    for net in INCLUDE_NETS:
        obs.append(Ob(oid=f"include-net/{net}", harness=P + "h_include_net", params={"net": net, "hang_probe": True}, vars={"V1": "int"}, timeout=200, per_path=60,
                      note=" || ".join(f"{n}: " + t.replace("\n", " / ") for n, t in INCLUDE_NETS[net][0].items())[:300]))
    for t in (".extern ghost\n.word ghost + {V1}\n", ".extern ghost\nmov ghost, r0\n.word {V1}\n", ".extern all\n.word nosuch + {V1}\n",
              ".extern ghost, ghost\n.word {V1}\n", ".extern\n.word {V1}\n", ".extern 5\n.word {V1}\n", ".extern ghost\nghost = ghost + {V1}\n",
              ".extern ghost\nX9 = ghost\n.word {V1}\n", ".extern ghost\n.blkb ghost\n.word {V1}\n", ".extern ghost\n.link ghost + {V1}\nnop\n",
              "br ghost\n.extern ghost\n.word {V1}\n"):
        add("extern", t)
    for t in (".rad50 <{V1}><{V1}><{V1}>\n", ".rad50 \"ABC\"<{V1}><47><47>\n", ".rad50 <{V1}>\n", ".rad50 /AB/<{V1}>/C/<{V2}>\n", ".word ^RAB + {V1}\n",
              ".ascii <{V1}><{V2}>\n", ".asciz \"a\"<{V1}>\"b\"\n", ".rad50 <code>\ncode = {V1}\n"):
        add("codes", t, vmax=70)
    for t in (".word ^R\u212a\n", ".word ^R\u0130\n", ".word \u0669\n", ".word 1\u0669\n", "\u212a = 5\n.word \u212a\n", "la\u017ft: .word la\u017ft\n",
              ".word ^D\u0669\n", ".word ^RAB\u212a\n", ".ascii \"\\x\u0669\u0669\"\n", ".word ^X\uff11\n", ".word \uff10x1f\n", "mov #\u0661, r\u0661\n",
              "\u0131nc r0\n", ".\u017feven\n", "1\u0669: nop\nbr 1\u0669\n", ".rad50 /\u212a/\n"):
        add("lookalike", t + ".word {V1}\n")
    for t in ("x: .repeat x / 1000 { .link 3000 }\n.word {V1}\n", "x: .repeat x / 1000 { . = 3000 }\n.word {V1}\n", ".word {V1}\n.repeat 1 { .link 3000 }\n",
              "br fwd\nmov #fwd, r0\nfwd: .word {V1}\n", ".word fwd\n.repeat 2 { .word fwd }\nfwd: .word {V1}\n", ".even\nmov #fwd, r0\nfwd: .word {V1}\n",
              "br fwd\n.repeat 2 { mov #fwd, r0 }\nfwd: .word {V1}\n", ".word fwd\n.ascii \"ab\"<fwd>\nfwd = {V1}\n", "clr fwd\nmov fwd, fwd\nfwd: .word {V1}\n"):
        add("pending-first", t)
    add("huge", ".word 1 << 20000.\n")
    add("huge", "X9 = 1 _ \"ab\"\n.byte X9\n")
    for i, c in enumerate(CYCLES):
        add("cycle", c)
        add("cycle-in-context", ".link 2000\n" + c + ".word 1\n")
    return obs
