"""C02  Addresses the program sees equal where its bytes land."""
import itertools
import os
import random

from ..common import require, BUILD, concretize
from ..obligations import Ob
from ..symasm import assemble, word_at, write_aux_file

H = "pdpverif.props.c02:h_layout"

META = {
    "claim": "every label (probe table '.word L1, L2, ...') equals base + bytes before it, the image length is the sum of the statement sizes, and "
             "(PDPY11_VERIF hook) for every traced statement, also inside .repeat bodies and included files, the image bytes at the address the "
             "statement was given are exactly the bytes it produced",
    "technique": "CrossHair symbolic execution of compile_block/compile_file/compile_include/Deferred.length/SizedDeferred/Concatenator with "
                 "symbolic base, sizes and data; z3 decides label values and the per-statement address invariant against a reference size model",
    "bounds": "programs of 1..4 statements (+labels, +probe table) per file over 20 statement kinds (incl. '.'-dependent operands after an extension word and a .repeat body whose size depends on its address); sizes N, K in 0..4 (quick) / 0..6 (thorough) (lengths are realised), "
              "defined before or after their use; '.link' at the start (eager evaluation) or at the end of the sources (base unknown while compiling: announced sizes drive the addresses); base: every value 0..65535 with base+length < 2^16; 1..3 linked files, include depth <= 3",
    "outside": ["programs longer than 4 statements per file", "sizes above 6", "the 21-program practice corpus (500-line programs are beyond the "
                "tracing budget; not claimed)"],
    "structure": "quick: all single kinds and a seeded third of the ordered pairs in one file (thorough: all pairs) + multi-file/include placements; thorough: + seeded triples/quadruples",
    "stubs": ["insert_file / .include read real files written to /verif/build/aux with concrete contents"],
}

AUXDIR = os.path.join(BUILD, "aux", "c02")
INSERT_BYTES = b"\x11\x22\x33"
INC_TEXT = "IL: .word IL\n.byte 7\n"            # 3 bytes, word first: needs an even address
INC2_TEXT = ".byte 4\n.even\n.include \"inc.mac\"\nI2: .byte 5\n"   # depth 2: 1 byte, pad, inc.mac (3 bytes), 1 byte
INC3_TEXT = "I3: .byte 6\n.include \"inc2.mac\"\n"                        # depth 3

# kind -> (text template, size rule, needs even address?, symbolic vars used)
#   size rule: int | "N" | "2N" | "K" | "even" | "odd" | "align4" | "repN"
KINDS = {
    "insn0":   ("nop", 2, True, []),
    "insn1":   ("mov #{X}, r0", 4, True, ["X"]),
    "insn2":   ("mov #{X}, @#{Y}", 6, True, ["X", "Y"]),
    "byte1":   (".byte {V}", 1, False, ["V"]),
    "byte2":   (".byte 1, {V}", 2, False, ["V"]),
    "word":    (".word {X}", 2, True, ["X"]),
    "wlist":   ("7, {X}", 4, True, ["X"]),
    "word0":   (".word", 2, True, []),
    "byte0":   (".byte", 1, False, []),
    "dword0":  (".dword", 4, True, []),
    "ascii":   (".ascii \"abc\"", 3, False, []),
    "asciz":   (".asciz \"ab\"", 3, False, []),
    "asczl":   (".asciz \"ab\"<zlate>", 4, False, []),      # 'zlate = 1' is defined at the very end of its file: pending when met
    "asclat":  (".ascii <zlate>\"abc\"<zlate>", 5, False, []),
    "blkb":    (".blkb {NSYM}", "N", False, ["N"]),
    "blkw":    (".blkw {NSYM}", "2N", False, ["N"]),
    "even":    (".even", "even", False, []),
    "odd":     (".odd", "odd", False, []),
    "align4":  (".align 4", "align4", False, []),
    "skip":    (". = . + {KSYM}", "K", False, ["K"]),
    "repeat":  (".repeat {NSYM} { .byte 5, 6 }", "repN", False, ["N"]),
    "repdot":  (".repeat 2 { .word . }", 4, True, []),
    "repdotdiv": (".repeat 2 { .word ./2, .>>1 }", 8, True, []),
    "insndot": ("mov #., @#.", 6, True, []),
    "idxdot":  ("bis #1, .-2(r3)", 6, True, []),
    "repvar":  (".repeat {NSYM} { .align 4\n .word .\n .byte 1, 2, 3 }", "repvar", True, ["N"]),
    "insert":  ("insert_file \"ins.bin\"", 3, False, []),
    "include": (".include \"inc.mac\"", 3, True, []),
    "include1": (".include \"inc1.mac\"", 4, True, []),
    "include1n": (".include \"inc1n.mac\"", 4, True, []),
    "include2": (".include \"inc2.mac\"", "inc2", False, []),
    "include3": (".include \"inc3.mac\"", "inc3", False, []),
}
ORDER = list(KINDS)


def size_of(kind, addr, vals):
    rule = KINDS[kind][1]
    if isinstance(rule, int):
        return rule
    if rule == "N":
        return vals["N"]
    if rule == "2N":
        return 2 * vals["N"]
    if rule == "K":
        return vals["K"]
    if rule == "repN":
        return 2 * vals["N"]
    if rule == "even":
        return addr % 2
    if rule == "odd":
        return (addr + 1) % 2
    if rule == "align4":
        return (-addr) % 4
    if rule == "inc2":
        return 1 + (addr + 1) % 2 + 3 + 1
    if rule == "inc3":
        return 1 + 1 + (addr + 2) % 2 + 3 + 1
    if rule == "repvar":
        a = addr
        for _ in range(vals["N"]):
            a = a + (-a) % 4 + 5
        return a - addr
    raise AssertionError(rule)


def content_of(kind, addr, vals):
    """Expected words [(byte offset in statement, value)] for statements whose content depends on '.'."""
    if kind == "insndot":
        return [(2, addr), (4, addr)]
    if kind == "idxdot":
        return [(2, 1), (4, addr - 2)]
    if kind == "repdot":
        return [(0, addr), (2, addr + 2)]
    if kind == "repdotdiv":
        # '.' is the address of the statement for every word of its list; each copy sees its own
        return [(0, addr // 2), (2, addr // 2), (4, (addr + 4) // 2), (6, (addr + 4) // 2)]
    if kind == "repvar":
        out, a = [], addr
        for _ in range(vals["N"]):
            a = a + (-a) % 4
            out.append((a - addr, a))
            a = a + 5
        return out
    return []


def build_file(kinds, fileno, nplace, kplace):
    """-> text of one file: a label before every statement and at the end."""
    lines = []
    pre_defs, post_defs = [], []
    uses_n = any("{NSYM}" in KINDS[k][0] for k in kinds)
    uses_k = any("{KSYM}" in KINDS[k][0] for k in kinds)
    nsym, ksym = f"nn{fileno}", f"kk{fileno}"
    if uses_n:
        (pre_defs if nplace == "before" else post_defs).append(f"{nsym} = {{N}}")
    if uses_k:
        (pre_defs if kplace == "before" else post_defs).append(f"{ksym} = {{K}}")
    if any("zlate" in KINDS[k][0] for k in kinds):
        post_defs.append("zlate = 1")
    lines += pre_defs
    for i, k in enumerate(kinds):
        t = KINDS[k][0].replace("{NSYM}", nsym).replace("{KSYM}", ksym)
        lines.append(f"F{fileno}L{i}:: " + t)
    lines.append(f"F{fileno}L{len(kinds)}::")
    lines += post_defs
    return "\n".join(lines) + "\n"


def setup_aux():
    write_aux_file("c02", "ins.bin", INSERT_BYTES)
    write_aux_file("c02", "inc.mac", INC_TEXT)
    write_aux_file("c02", "inc1.mac", "tbl: .word 1, 2\n")          # the whole file is one statement (pending while the base is unknown)
    write_aux_file("c02", "inc1n.mac", ".include \"inc1.mac\"\n")  # ... and a file that only includes such a file
    write_aux_file("c02", "inc2.mac", INC2_TEXT)
    write_aux_file("c02", "inc3.mac", INC3_TEXT)


def h_layout(params, vals, ctx):
    from pdpy11.deferred import wait
    files_kinds = params["files"]
    b = vals["B"]
    require(0 <= b < 65536)
    for v in ("N", "K"):
        if v in vals:
            require(0 <= vals[v] <= params.get("max_size", 6))
    for v in ("X", "Y"):
        if v in vals:
            require(-65536 < vals[v] < 65536)
    if "V" in vals:
        require(-256 < vals["V"] < 256)
    # ---- reference size model; word-sized statements must sit on even addresses -------------
    addr = b
    label_addrs = []
    contents = []
    for fk in files_kinds:
        for k in fk:
            if KINDS[k][2]:
                require(addr % 2 == 0)
            label_addrs.append(addr)
            for off, val in content_of(k, addr, vals):
                contents.append((addr - b + off, val))
            addr = addr + size_of(k, addr, vals)
        label_addrs.append(addr)
    pad = addr % 2
    table_at = addr + pad
    total = table_at + 2 * len(label_addrs) - b
    require(b + total < 65536)
    setup_aux()
    files = []
    for i, fk in enumerate(files_kinds, start=1):
        text = build_file(fk, i, params.get("nplace", "before"), params.get("kplace", "before"))
        if i == 1 and params.get("link_pos", "start") == "start":
            text = ".link {B}\n" + text
        if i == 1 and params.get("link_pos") == "end-of-first":
            text = text + ".link {B}\n"
        files.append((os.path.join(AUXDIR, f"f{i}.mac"), text))
    names = [f"F{i}L{j}" for i, fk in enumerate(files_kinds, start=1) for j in range(len(fk) + 1)]
    files.append((os.path.join(AUXDIR, "probe.mac"), ".even\nPT: .word " + ", ".join(names) + "\n"
                  + (".link {B}\n" if params.get("link_pos") == "end" else "")))
    o = assemble(files, vals, route=ctx.route, hook=params.get("hook", True))
    ctx.observe_outcome(o)
    ctx.reach(o.status == "ok")
    if o.status != "ok" or o.errors:
        return False
    code = o.code
    if not (o.base == b):
        return False
    if len(code) != total:
        return False
    toff = table_at - b
    for j, la in enumerate(label_addrs):
        if not (word_at(code, toff + 2 * j) == la):
            return False
    for off, val in contents:
        if not (word_at(code, off) == val % 65536):
            return False
    # ---- hook: every traced statement's bytes lie at the address it was given ----------------
    if params.get("hook", True) and o.trace is not None:
        if len(o.trace) < sum(len(fk) for fk in files_kinds):
            return False
        for insn, a, chunk in o.trace:
            a = wait(a) - b
            c = wait(chunk)
            n = len(c)
            if not (0 <= a and a + n <= len(code)):
                return False
            if n and not (code[a:a + n] == c):
                return False
    return True


def h_concat(params, vals, ctx):
    """Byte-chunk algebra as a unit: a sequence of chunks (plain bytes, SizedDeferred, Deferred, nested concatenations) added up
    the way compile_block does it; the announced length equals the length of what is finally produced, the running address after
    every chunk equals base + bytes so far, and the bytes come out in order."""
    from pdpy11.deferred import Deferred, SizedDeferred, BaseDeferred, Promise, wait, not_ready
    from ..symasm import reset_module_state
    reset_module_state()
    shape = params["shape"]
    n1, n2, b = vals["N1"], vals["N2"], vals["B"]
    require(0 <= n1 <= 3 and 0 <= n2 <= 3)
    require(0 <= b < 60000)
    n1, n2 = concretize(n1), concretize(n2)
    known = {}

    def late(name, value):
        def fn():
            if name not in known:
                not_ready()
                raise KeyError(name)
            return value
        return fn

    P = Promise(int, "LA")
    addr = P
    data = b""
    addrs = []
    pieces = []
    for kind in shape:
        if kind == "bytes":
            chunk = b"\x01\x02"
            want = b"\x01\x02"
        elif kind == "sized":
            chunk = SizedDeferred[bytes](2, late("k", b"\x03\x04"))  # the way the compiler builds it: an early attempt, then pending
            want = b"\x03\x04"
        elif kind == "deferred1":
            chunk = Deferred[bytes](late("k", b"\x05" * n1))
            want = b"\x05" * n1
        elif kind == "deferred2":
            chunk = Deferred[bytes](late("k", b"\x06" * n2))
            want = b"\x06" * n2
        elif kind == "nested":
            inner = SizedDeferred(bytes, 1, late("k", b"\x07")) + Deferred(bytes, late("k", b"\x08" * n1)) + b"\x09"
            chunk = Deferred(bytes, (lambda inner=inner: inner))
            want = b"\x07" + b"\x08" * n1 + b"\x09"
        elif kind == "wrapper0":
            # what '.include' does: declared size 0, computed at once to another (still pending) chunk which then stands for it
            inner = Deferred[bytes](late("k", b"\x0a" * n2 + b"\x0b"))
            chunk = SizedDeferred[bytes](0, (lambda inner=inner: inner))
            want = b"\x0a" * n2 + b"\x0b"
        else:  # empty
            chunk = b""
            want = b""
        addrs.append(addr)
        pieces.append(want)
        data = data + chunk
        addr = addr + (chunk.length() if isinstance(chunk, BaseDeferred) else len(chunk))
    total_len = data.length() if isinstance(data, BaseDeferred) else len(data)
    P.settle(b)
    known["k"] = True
    out = wait(data)
    ctx.observe(out)
    ctx.reach(True)
    exp = b"".join(pieces)
    if not (bytes(out) == exp and wait(total_len) == len(exp)):
        return False
    pos = b
    for a, w in zip(addrs, pieces):
        if not (wait(a) == pos):
            return False
        pos = pos + len(w)
    return wait(addr) == pos


def feasible(files_kinds):
    """Some parity assignment of base and sizes puts every word-sized statement on an even address."""
    for b, n, k in itertools.product((0, 1), (0, 1, 2), (0, 1, 2)):
        addr, ok = b, True
        for fk in files_kinds:
            for kind in fk:
                if KINDS[kind][2] and addr % 2:
                    ok = False
                addr += size_of(kind, addr, {"N": n, "K": k})
        if ok:
            return True
    return False


def _ob(tag, files_kinds, **kw):
    vars_ = {"B": "int"}
    for fk in files_kinds:
        for k in fk:
            for v in KINDS[k][3]:
                vars_[v] = "int"
    text = " || ".join(build_file(fk, i, kw.get("nplace", "before"), kw.get("kplace", "before")).replace("\n", " / ")
                       for i, fk in enumerate(files_kinds, start=1))
    kw.setdefault("max_size", 6)
    return Ob(oid=tag, harness=H, params={"files": files_kinds, **kw}, vars=vars_, timeout=900, per_path=90, note=text,
              pre="0 <= B, B+len < 65536; N,K in 0..6; word-sized statements on even addresses")


CONCAT_SHAPES = [
    ["bytes", "sized", "deferred1"], ["deferred1", "deferred2", "bytes"], ["sized", "nested", "sized"], ["nested", "nested"], ["empty", "deferred1", "empty", "bytes"],
    ["deferred1"], ["bytes", "bytes", "deferred2", "sized", "nested", "deferred1"], ["sized", "sized", "sized"], ["nested", "empty", "deferred2"],
    ["wrapper0", "bytes"], ["bytes", "wrapper0", "sized", "wrapper0"], ["wrapper0"],
]


def obligations(tier, seed):
    unit = [Ob(oid=f"unit/concat/{'+'.join(sh)}", harness="pdpverif.props.c02:h_concat", params={"shape": sh}, vars={"N1": "int", "N2": "int", "B": "int"},
               timeout=300, note="unit-level: Concatenator / SizedDeferred / Deferred.length with contents that become known only later")
            for sh in CONCAT_SHAPES]
    return unit + _filtered_obligations(tier, seed)


def _filtered_obligations(tier, seed):
    obs = [o for o in _obligations(tier, seed) if feasible(o.params["files"])]
    # '. = X' while no base has been set is treated as '.link' by the assembler (outside the property as stated, see C12)
    obs = [o for o in obs if o.params.get("link_pos", "start") == "start" or not any("skip" in fk for fk in o.params["files"])]
    if tier == "quick":
        for o in obs:
            o.params["max_size"] = 4
    return obs


def _obligations(tier, seed):
    rnd = random.Random(200 + seed)
    obs = []
    for k in ORDER:
        for place in ("before", "after"):
            if place == "after" and not any(s in KINDS[k][0] for s in ("{NSYM}", "{KSYM}")):
                continue
            obs.append(_ob(f"single/{k}/{place}", [[k]], nplace=place, kplace=place))
            # the base is still unknown while the statements are compiled: announced sizes (SizedDeferred, Deferred.length)
            # are what advances the addresses, contents come later
            obs.append(_ob(f"single-late-link/{k}/{place}", [[k, "insn1"]], nplace=place, kplace=place, link_pos="end"))
            obs.append(_ob(f"single-link-end-of-first/{k}/{place}", [[k], ["word"]], nplace=place, kplace=place, link_pos="end-of-first"))
    for a, b_ in itertools.product(ORDER, ORDER):
        if tier == "quick" and (ORDER.index(a) * 7 + ORDER.index(b_) * 3 + seed) % 3:
            continue  # quick: a seeded third of the ordered pairs; thorough: all of them
        place = "after" if (ORDER.index(a) + ORDER.index(b_)) % 2 else "before"
        lp = "end" if (ORDER.index(a) * 5 + ORDER.index(b_)) % 2 else "start"
        obs.append(_ob(f"pair/{a}+{b_}", [[a, b_]], nplace=place, kplace=place, link_pos=lp))
    # multi-file and include placements
    multi = [
        [["byte1", "even", "insn1"], ["word", "blkb"]],
        [["blkb", "even"], ["include", "byte1"], ["align4", "insn2"]],
        [["insn0"], ["insn1"], ["insn2"]],
        [["ascii", "odd", "byte1"], ["repdot", "skip"]],
        [["repeat", "even", "include"], ["insert", "even", "wlist"]],
        [["skip", "align4", "word"], ["blkw", "asciz", "even", "insn1"]],
    ]
    for i, m in enumerate(multi):
        for place in ("before", "after"):
            obs.append(_ob(f"multi/{i}/{place}", m, nplace=place, kplace=place, link_pos="end" if place == "after" else "start"))
    if tier == "thorough":
        for i in range(300):
            n = rnd.choice([3, 3, 4])
            ks = [rnd.choice(ORDER) for _ in range(n)]
            place = rnd.choice(["before", "after"])
            obs.append(_ob(f"seq/{i}", [ks], nplace=place, kplace=rnd.choice(["before", "after"])))
        for i in range(60):
            fs = [[rnd.choice(ORDER) for _ in range(rnd.randint(1, 3))] for _ in range(rnd.randint(2, 3))]
            obs.append(_ob(f"mseq/{i}", fs, nplace=rnd.choice(["before", "after"]), kplace=rnd.choice(["before", "after"])))
    return obs
