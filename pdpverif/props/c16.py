"""C16  Structural directives preserve meaning."""
import os

from ..common import require, concretize, BUILD
from ..obligations import Ob
from ..symasm import assemble, write_aux_file

P = "pdpverif.props.c16:"
AUX = os.path.join(BUILD, "aux", "c16")

META = {
    "claim": "'.repeat n { body }' assembles to what the body written out n times assembles to (same base, bytes, outcome) for all operand "
             "values and bases; linked files F1 F2 [F3] equal their concatenation; insert_file equals the same bytes as '.byte' data; '.end' "
             "discards exactly the rest of its own file; '.once' makes an included file contribute only the first time; an included file equals the same text written in place; a changed "
             "inserted file is read anew by the next assembly",
    "technique": "CrossHair symbolic execution of both programs in one harness (metacommands.repeat/include/insert_file/end/once, "
                 "compile_block, operator caches, hoisting) with shared symbolic values; z3 decides image equality",
    "bounds": "repeat: 24 bodies (every operand form, '.', '.+k', indexed operands with symbolic offsets, non-linear operators on '.', nested "
              "repeat, address-dependent sizes) x n in 0..4 (quick: 0,1,2,3) and one symbolic n <= 4; values: |X| < 2^16; base even 0..30000; "
              "1..3 files; inserted files of 0..6 concrete bytes and <= 4 symbolic bytes",
    "outside": ["n above 4, nesting above 2, inserted files above 6 bytes (lengths are realised)"],
    "structure": "body catalogue x count; file splits; .end / .once placements; .once-guarded include cycles",
    "stubs": ["insert_file with symbolic content: the module-level open() of pdpy11.metacommands returns the symbolic bytes"],
}

BODIES = {
    "imm": "mov #{X}, r0",
    "idx": "mov {X}(r1), r2",
    "idx-sum": "mov 2+{X}(r1), r0",
    "idx-neg": "mov -{X}(r3), r0",
    "idx-def": "mov @{X}+4(r2), (r1)+",
    "dot-word": ".word .",
    "dot-plus": ".word .+{X}",
    "dot-imm-abs": "mov #., @#.",
    "dot-div": ".word . / 2",
    "dot-mod": ".word . % 8.",
    "dot-shr": "mov #.>>1, r0",
    "dot-shl": ".word .<<1",
    "dot-lsh": ".word . _ 1",
    "rel-after": "clr TA",
    "rel-before": "inc TB",
    "rel-def": "mov @TB, r1",
    "branch-back": "bne TB",
    "branch-fwd": "br TA",
    "sob-dot": "sob r1, .",
    "bytes": ".byte {X}, 2",
    "align-word": ".align 4\n.word .\n.byte 1, 2, 3",
    "even-word": ".byte 1\n.even\n.word .",
    "nested": ".repeat 2 { .word . }",
    "nested-byte": ".byte 7\n.repeat 2 { .byte {X} }",
    "blk": ".blkb 3",
    "ascii": ".ascii \"ab\"",
    "div-const": ".word {X} / 3",
    "even-byte": ".even\n.byte 1",
    "odd-byte": ".odd\n.byte 1, 2",
    "align-byte": ".align 4\n.byte 1, 2, 3",
}
ODD_OK = {"bytes", "align-word", "blk", "ascii", "nested-byte"}


def same(o1, o2):
    if o1.status != o2.status:
        return False
    if o1.status != "ok":
        return True
    return (o1.base == o2.base) and len(o1.code) == len(o2.code) and (o1.code == o2.code)


def repeat_programs(body, n, nsym=False, late=False):
    head = ".link {B}\nTB: .word 0\n"
    tail = "\n.even\nTA: .word 0\n"
    if late:
        head, tail = "TB: .word 0\n", tail + ".link {B}\n"
    one_line = body.replace("\n", "\n ")
    rep = head + (".repeat {N} { " if nsym else f".repeat {n}. {{ ") + one_line + " }" + tail
    unrolled = head + "\n".join([body] * n) + tail
    return rep, unrolled


def h_repeat(params, vals, ctx):
    body = BODIES[params["body"]]
    b = vals["B"]
    require(0 <= b <= 30000 and b % 2 == 0)
    if "X" in vals:
        require(-65536 < vals["X"] < 65536)
        if params["body"] in ("bytes", "nested-byte"):
            require(-256 < vals["X"] < 256)
    if "N" in vals:
        require(0 <= vals["N"] <= params.get("nmax", 4))
        n = concretize(vals["N"])
        vals = {**vals, "N": n}
    else:
        n = params["n"]
    rep, unrolled = repeat_programs(body, n, nsym="N" in vals, late=params.get("late", False))
    o1 = assemble([("a.mac", rep)], vals, route=ctx.route)
    o2 = assemble([("a.mac", unrolled)], vals, route=ctx.route)
    ctx.observe_outcome(o1)
    ctx.observe_outcome(o2)
    ctx.reach(o1.status == "ok" and o2.status == "ok")
    if o2.status == "ok" and params.get("expect_ok", True) and o1.status != "ok":
        return False
    return same(o1, o2)


SPLITS = [
    # (files, note): pieces that share no private or local names; labels used across files are exported
    ["A:: .word A, {X}\n.byte 1\n", ".even\nB:: .word A, B\nmov #B, r0\n"],
    ["A:: mov #{X}, r0\nbr A\n", "B:: clr A\nbne B\n", "C:: .word A, B, C\n"],
    ["s1 = {X}\n.word s1\n", "s2 = {X} + 1\n.word s2\n"],
    ["1: .word 1\nsob r0, 1\n", "G:: nop\n1: .word 1\nbr 1\n"],
    [".byte {X}\n", ".byte 2\n", ".even\nZ:: .word Z\n"],
    ["A:: .blkb 3\n", ".even\n.repeat 2 { .word . }\n"],
    # references spelled in another letter case than the exporting definition, forward and backward across files
    ["mov #Tail, r0\nHead:: .word {X}, TAIL\n", "clr HEAD\ncnt == {X} + 1\n.word head, CNT\n", "tail:: .word Cnt, hEAD\n"],
    [".word Start, LIM\n", "START:: .word lim\nLim = {X}\n.extern LIM\n"],
]


def h_link_concat(params, vals, ctx):
    files = params["files"]
    b = vals["B"]
    require(0 <= b <= 30000 and b % 2 == 0)
    require(-256 < vals["X"] < 256)
    names = [f"/w/f{i + 1}.mac" for i in range(len(files))]
    linked = [(names[0], ".link {B}\n" + files[0])] + [(nm, t) for nm, t in zip(names[1:], files[1:])]
    concat = [(names[0], ".link {B}\n" + "".join(files))]
    o1 = assemble(linked, vals, route=ctx.route)
    o2 = assemble(concat, vals, route=ctx.route)
    ctx.observe_outcome(o1)
    ctx.observe_outcome(o2)
    ctx.reach(o1.status == "ok" and o2.status == "ok")
    if o1.status != "ok" or o2.status != "ok":
        return False
    return same(o1, o2)


def h_insert(params, vals, ctx):
    data = bytes(params["data"])
    name = f"ins{len(data)}_{params.get('tag', 'x')}.bin"
    write_aux_file("c16", name, data)
    b, x = vals["B"], vals["X"]
    require(0 <= b < 60000)
    require(-256 < x < 256)
    pre = ".link {B}\n.byte {X}\n"
    post = "\nL: .byte 3\n.even\n.word L\n"
    p1 = pre + f'insert_file "{name}"' + post
    p2 = pre + (".byte " + ", ".join(str(v) + "." for v in data) if data else "") + post
    src = os.path.join(AUX, "main.mac")
    o1 = assemble([(src, p1)], vals, route=ctx.route)
    o2 = assemble([(src, p2)], vals, route=ctx.route)
    ctx.observe_outcome(o1)
    ctx.observe_outcome(o2)
    ctx.reach(o1.status == "ok" and o2.status == "ok")
    if o1.status != "ok" or o2.status != "ok":
        return False
    return same(o1, o2)


def h_insert_symbolic(params, vals, ctx):
    """insert_file whose content is <= 4 symbolic bytes (open() of pdpy11.metacommands stubbed)."""
    import io
    import pdpy11.metacommands as M
    data = vals["DATA"]
    require(len(data) <= 4)
    n = concretize(len(data))
    b = vals["B"]
    require(0 <= b < 60000)
    pre = ".link {B}\n.byte 1\n"
    post = "\nL: .byte 3\n.even\n.word L\n"
    p1 = pre + 'insert_file "sym.bin"' + post
    names = [f"V{i}" for i in range(n)]
    p2 = pre + (".byte " + ", ".join("{%s}" % nm for nm in names) if n else "") + post
    v2 = {**vals, **{nm: data[i] for i, nm in enumerate(names)}}

    class F:
        def __enter__(self):
            return self

        def __exit__(self, *a):
            return False

        def read(self):
            return data

    M.open = lambda path, mode="r": F()
    try:
        o1 = assemble([("/w/main.mac", p1)], vals, route=ctx.route)
    finally:
        del M.open
    o2 = assemble([("/w/main.mac", p2)], v2, route=ctx.route, order=["B"] + names)
    ctx.observe_outcome(o1)
    ctx.observe_outcome(o2)
    ctx.reach(o1.status == "ok" and o2.status == "ok")
    if o1.status != "ok" or o2.status != "ok":
        return False
    return same(o1, o2)


def h_end(params, vals, ctx):
    b, x = vals["B"], vals["X"]
    require(0 <= b <= 30000 and b % 2 == 0)
    require(-65536 < x < 65536)
    kind = params["kind"]
    junk = "\n.word 18\nmov #1\nfrobnicate\nA: .word {X}\n"
    if params.get("junk") == "unparsable":
        junk = "\n))) {X}\n}\n^Z 'x\n.ascii \"abc\n"   # text that is not even a statement; nothing after '.end' is read
    sp = params.get("spelling")
    if sp:
        f_end = [("/w/a.mac", ".link {B}\nA: .word A, {X}\n" + sp + junk)]
        f_ref = [("/w/a.mac", ".link {B}\nA: .word A, {X}\n")]
    elif kind == "single":
        f_end = [("/w/a.mac", ".link {B}\nA: .word A, {X}\n.end" + junk)]
        f_ref = [("/w/a.mac", ".link {B}\nA: .word A, {X}\n")]
    elif kind == "first-of-two":
        f_end = [("/w/a.mac", ".link {B}\nA:: .word A, {X}\n.end" + junk), ("/w/b.mac", "B: .word A, B\n")]
        f_ref = [("/w/a.mac", ".link {B}\nA:: .word A, {X}\n"), ("/w/b.mac", "B: .word A, B\n")]
    elif kind == "bare-end":
        f_end = [("/w/a.mac", ".link {B}\nA: .word A, {X}\nend" + junk)]
        f_ref = [("/w/a.mac", ".link {B}\nA: .word A, {X}\n")]
    else:  # included file ends early; the including file goes on
        write_aux_file("c16", "early.mac", "E1: .word {X}\n.end\n.word 18\n".replace("{X}", "^D9001"))
        write_aux_file("c16", "early_ref.mac", "E1: .word {X}\n".replace("{X}", "^D9001"))
        src = os.path.join(AUX, "main.mac")
        f_end = [(src, ".link {B}\n.word {X}\n.include \"early.mac\"\nT: .word T\n")]
        f_ref = [(src, ".link {B}\n.word {X}\n.include \"early_ref.mac\"\nT: .word T\n")]
        if ctx.route == "text":
            pid = os.getpid()
            write_aux_file("c16", f"early_t{pid}.mac", "E1: .word %s\n.end\n.word 18\n" % _lit(x))
            write_aux_file("c16", f"early_ref_t{pid}.mac", "E1: .word %s\n" % _lit(x))
            f_end = [(src, f_end[0][1].replace("early.mac", f"early_t{pid}.mac"))]
            f_ref = [(src, f_ref[0][1].replace("early_ref.mac", f"early_ref_t{pid}.mac"))]
    order = ["B", "X"]
    o1 = assemble(f_end, vals, route=ctx.route, order=order)
    o2 = assemble(f_ref, vals, route=ctx.route, order=order)
    ctx.observe_outcome(o1)
    ctx.observe_outcome(o2)
    ctx.reach(o1.status == "ok" and o2.status == "ok")
    if o1.status != "ok" or o2.status != "ok":
        return False
    return same(o1, o2)


def _lit(v):
    v = int(v)
    return f"-^D{-v}" if v < 0 else f"^D{v}"


def h_once(params, vals, ctx):
    b, x = vals["B"], vals["X"]
    require(0 <= b <= 30000 and b % 2 == 0)
    require(-65536 < x < 65536)
    order = ["B", "X"]
    xs = "^D9001" if ctx.route == "inject" else _lit(x)
    sfx = "" if ctx.route == "inject" else f"_t{os.getpid()}"
    write_aux_file("c16", f"once{sfx}.mac", f".once\nOL: .word OL, {xs}\n")
    write_aux_file("c16", f"twice{sfx}.mac", f"OL: .word OL, {xs}\n")
    src = os.path.join(AUX, "main.mac")
    k = params["times"]
    inc_once = "".join(f'.include "once{sfx}.mac"\n.word {i + 1}\n' for i in range(k))
    inc_ref = f'.include "twice{sfx}.mac"\n' + "".join(f".word {i + 1}\n" for i in range(k))
    o1 = assemble([(src, ".link {B}\n" + inc_once)], vals, route=ctx.route, order=order)
    o2 = assemble([(src, ".link {B}\n" + inc_ref)], vals, route=ctx.route, order=order)
    # without .once every inclusion contributes
    inc_tw = "".join(f'.include "twice{sfx}.mac"\n' for i in range(k))
    o3 = assemble([(src, ".link {B}\n" + inc_tw)], vals, route=ctx.route, order=order)
    ctx.observe_outcome(o1)
    ctx.observe_outcome(o2)
    ctx.reach(o1.status == "ok" and o2.status == "ok")
    if o1.status != "ok" or o2.status != "ok" or o3.status != "ok":
        return False
    return same(o1, o2) and len(o3.code) == 4 * k


def h_once_cycle(params, vals, ctx):
    """Headers guarded by '.once' that include each other (or themselves): each contributes exactly once, in inclusion order."""
    b, x = vals["B"], vals["X"]
    require(0 <= b <= 30000 and b % 2 == 0)
    require(-65536 < x < 65536)
    order = ["B", "X"]
    xs = "^D9001" if ctx.route == "inject" else _lit(x)
    kind = params["kind"]
    sfx = "_" + kind[:2] + ("" if ctx.route == "inject" else f"_t{os.getpid()}")
    if kind == "mutual":
        write_aux_file("c16", f"cya{sfx}.mac", f'.once\nCA:: .word CA, {xs}\n.include "cyb{sfx}.mac"\n.word 3\n')
        write_aux_file("c16", f"cyb{sfx}.mac", f'.once\n.include "cya{sfx}.mac"\nCB: .word CB - CA\n')
        ref = f"CA:: .word CA, {xs}\nCB: .word CB - CA\n.word 3\n"
    elif kind == "self":
        write_aux_file("c16", f"cya{sfx}.mac", f'.once\nCA:: .word CA, {xs}\n.include "cya{sfx}.mac"\n.word 3\n')
        ref = f"CA:: .word CA, {xs}\n.word 3\n"
    else:  # the second inclusion comes from the main file, after the cycle
        write_aux_file("c16", f"cya{sfx}.mac", f'.once\nCA:: .word CA, {xs}\n.include "cyb{sfx}.mac"\n')
        write_aux_file("c16", f"cyb{sfx}.mac", f'.include "cya{sfx}.mac"\n.word 5\n')
        ref = f"CA:: .word CA, {xs}\n.word 5\n.word 5\n"
    src = os.path.join(AUX, "main_cycle.mac")
    tail = f'.include "cyb{sfx}.mac"\n' if kind == "re-entered" else ""
    o1 = assemble([(src, f'.link {{B}}\n.word 1\n.include "cya{sfx}.mac"\n' + tail + ".word 2\n")], vals, route=ctx.route, order=order)
    o2 = assemble([(src, ".link {B}\n.word 1\n" + ref + ".word 2\n")], vals, route=ctx.route, order=order)
    ctx.observe_outcome(o1)
    ctx.observe_outcome(o2)
    ctx.reach(o1.status == "ok" and o2.status == "ok")
    if o1.status != "ok" or o2.status != "ok" or o1.errors:
        return False
    return same(o1, o2)


def h_once_spellings(params, vals, ctx):
    """One '.once' file reached under two spellings (from the main file through its directory, from its sibling by its bare name),
    and nested relative paths below a subdirectory: the file is one file, whatever it is called where it is included."""
    b, x = vals["B"], vals["X"]
    require(0 <= b <= 30000 and b % 2 == 0)
    require(-65536 < x < 65536)
    order = ["B", "X"]
    xs = "^D9001" if ctx.route == "inject" else _lit(x)
    sfx = "" if ctx.route == "inject" else f"_t{os.getpid()}"
    d = f"sp{sfx}/lib"
    write_aux_file("c16/" + d, "a.mac", f".once\nOA:: .word OA, {xs}\n")
    write_aux_file("c16/" + d, "b.mac", '.include "a.mac"\n.word 5\ninsert_file "blob.bin"\n.even\n')
    write_aux_file("c16/" + d, "blob.bin", b"\x07\x08\x09")
    src = os.path.join(AUX, f"sp{sfx}", "main.mac")
    first, second = ("a", "b") if params["order"] == "a-then-b" else ("b", "a")
    o1 = assemble([(src, f'.link {{B}}\n.word 1\n.include "lib/{first}.mac"\n.include "lib/{second}.mac"\n.word 2\n')], vals, route=ctx.route, order=order)
    body = {"a": f"OA:: .word OA, {xs}\n", "b": ".word 5\n.byte 7, 10, 11\n.even\n"}
    ref = (body["a"] + body["b"]) if first == "a" else (body["a"] + body["b"])   # b pulls a in first when it comes first
    o2 = assemble([(src, ".link {B}\n.word 1\n" + ref + ".word 2\n")], vals, route=ctx.route, order=order)
    ctx.observe_outcome(o1)
    ctx.observe_outcome(o2)
    ctx.reach(o1.status == "ok" and o2.status == "ok")
    if o1.status != "ok" or o2.status != "ok" or o1.errors:
        return False
    return same(o1, o2)


def h_once_linked(params, vals, ctx):
    """A '.once' file that is linked at top level and also included contributes only once."""
    b, x = vals["B"], vals["X"]
    require(0 <= b <= 30000 and b % 2 == 0)
    require(-65536 < x < 65536)
    order = ["B", "X"]
    xs = "^D9001" if ctx.route == "inject" else _lit(x)
    sfx = "" if ctx.route == "inject" else f"_t{os.getpid()}"
    lib = os.path.join(AUX, f"lib{sfx}.mac")
    lib_text = f".once\nLIB:: .word LIB, {xs}\n"
    write_aux_file("c16", f"lib{sfx}.mac", lib_text)
    main = os.path.join(AUX, "main_once.mac")
    kind = params["kind"]
    if kind == "linked-then-included":
        files = [(lib, ".link {B}\n" + lib_text), (main, f'.word 1\n.include "lib{sfx}.mac"\n.word 2\n')]
        want_len = 4 + 2 + 2
    elif kind == "linked-twice":
        files = [(lib, ".link {B}\n" + lib_text), (lib, lib_text)]
        want_len = 4
    else:  # included-then-linked
        files = [(main, f'.link {{B}}\n.word 1\n.include "lib{sfx}.mac"\n.word 2\n'), (lib, lib_text)]
        want_len = 2 + 4 + 2
    o = assemble(files, vals, route=ctx.route, order=order)
    ctx.observe_outcome(o)
    ctx.reach(o.status == "ok")
    if o.status != "ok" or o.errors:
        return False
    return len(o.code) == want_len


INC_BODIES = {
    "own-label-negative": "tab: .word 2000 - tab, -tab & 177777, 3*tab - 2*tab\n",
    "own-label-diff": "a1: .word a2 - a1, {X}\na2: .word a1, . - a1\n",
    "relative-own": "q1: mov q2, r0\nbr q1\nq2: .word q2 - q1\n",
    "locals": "1$: inc r0\nbne 1$\nsob r1, 1$\n.word 1$\n",
}


def h_include_inline(params, vals, ctx):
    """'.include' of a file equals the same text written in place (the file uses only its own names)."""
    b, x, k = vals["B"], vals["X"], vals["K"]
    require(0 <= b <= 20000 and b % 2 == 0)
    require(-65536 < x < 65536)
    require(0 <= k <= 3)
    k = concretize(k)
    order = ["B", "X", "K"]
    body = INC_BODIES[params["body"]]
    sfx = "" if ctx.route == "inject" else f"_t{os.getpid()}"
    from ..symasm import render
    inc = f"inl_{params['body']}{sfx}.mac"
    write_aux_file("c16", inc, render(body, order, vals, ctx.route))
    src = os.path.join(AUX, "main_inl.mac")
    late = params.get("late", False)
    head = ("" if late else ".link {B}\n") + "P0:: .word 1\n" + ".word 0\n" * k
    tail = "P9: .word P9\n" + (".link {B}\n" if late else "")
    p1 = head + f'.include "{inc}"\n' + tail
    p2 = head + body + tail
    o1 = assemble([(src, p1)], vals, route=ctx.route, order=order)
    o2 = assemble([(src, p2)], vals, route=ctx.route, order=order)
    ctx.observe_outcome(o1)
    ctx.observe_outcome(o2)
    ctx.reach(o1.status == "ok" and o2.status == "ok")
    if o1.status != "ok" or o2.status != "ok":
        return False
    return same(o1, o2)


def h_insert_changed(params, vals, ctx):
    """Two assemblies in one process with the inserted file changed in between: each sees the bytes present at its time."""
    b = vals["B"]
    require(0 <= b < 60000)
    name = f"chg_{params['tag']}_{os.getpid()}.bin"
    src = os.path.join(AUX, "main_chg.mac")
    text = '.link {B}\n.byte 1\ninsert_file "' + name + '"\n.byte 2\n'
    write_aux_file("c16", name, bytes(params["first"]))
    o1 = assemble([(src, text)], vals, route=ctx.route)
    write_aux_file("c16", name, bytes(params["second"]))
    o2 = assemble([(src, text)], vals, route=ctx.route)
    ctx.observe_outcome(o1)
    ctx.observe_outcome(o2)
    ctx.reach(o1.status == "ok" and o2.status == "ok")
    if o1.status != "ok" or o2.status != "ok":
        return False
    return bytes(o1.code) == b"\x01" + bytes(params["first"]) + b"\x02" and bytes(o2.code) == b"\x01" + bytes(params["second"]) + b"\x02"


def obligations(tier, seed):
    obs = []
    counts = [0, 1, 2, 3, 4] if tier == "thorough" else [0, 2, 3]
    for name, body in BODIES.items():
        for n in counts:
            vars_ = {"B": "int"}
            if "{X}" in body:
                vars_["X"] = "int"
            obs.append(Ob(oid=f"repeat/{name}/n{n}", harness=P + "h_repeat", params={"body": name, "n": n}, vars=vars_, timeout=400, per_path=90,
                          note=repeat_programs(body, n)[0].replace("\n", " / ")))
        vars_ = {"B": "int", "N": "int"}
        if "{X}" in body:
            vars_["X"] = "int"
        if tier == "thorough" or name in ("dot-word", "rel-after", "idx-sum", "dot-div", "align-word", "even-word", "nested", "branch-fwd"):
            obs.append(Ob(oid=f"repeat-late-link/{name}/n3", harness=P + "h_repeat", params={"body": name, "n": 3, "late": True},
                          vars={k: v for k, v in vars_.items() if k != "N"}, timeout=400, per_path=90, note=".link at the end: base unknown while the copies are compiled"))
        if tier == "thorough" or name in ("dot-word", "rel-after", "idx-sum", "dot-div", "align-word"):
            obs.append(Ob(oid=f"repeat/{name}/n-symbolic", harness=P + "h_repeat", params={"body": name, "nmax": 4}, vars=vars_, timeout=600, per_path=90))
    for i, files in enumerate(SPLITS):
        obs.append(Ob(oid=f"link-concat/{i}", harness=P + "h_link_concat", params={"files": files}, vars={"B": "int", "X": "int"}, timeout=400,
                      note=" || ".join(f.replace("\n", " / ") for f in files)))
    for data in ([], [0], [255, 1], [1, 2, 3], [0, 0, 0, 0, 0, 9]) if tier == "quick" else [list(range(k)) for k in range(7)] + [[255] * 6]:
        obs.append(Ob(oid=f"insert/{len(data)}-{sum(data)}", harness=P + "h_insert", params={"data": data, "tag": str(sum(data))}, vars={"B": "int", "X": "int"}, timeout=300))
    for i, (a, b_) in enumerate([([1, 2, 3], [9, 8, 7]), ([1, 2], [1, 2, 3, 4]), ([5], []), ([], [6, 6])]):
        obs.append(Ob(oid=f"insert/changed-between-assemblies/{i}", harness=P + "h_insert_changed", params={"first": a, "second": b_, "tag": str(i)},
                      vars={"B": "int"}, timeout=300))
    for body in INC_BODIES:
        for late in (False, True):
            obs.append(Ob(oid=f"include-inline/{body}/{'late-link' if late else 'link-first'}", harness=P + "h_include_inline", params={"body": body, "late": late},
                          vars={"B": "int", "X": "int", "K": "int"}, timeout=400, per_path=90))
    obs.append(Ob(oid="insert/symbolic", harness=P + "h_insert_symbolic", params={}, vars={"B": "int", "DATA": "bytes"}, timeout=900))
    for kind in ("single", "first-of-two", "bare-end", "included"):
        obs.append(Ob(oid=f"end/{kind}", harness=P + "h_end", params={"kind": kind}, vars={"B": "int", "X": "int"}, timeout=300))
    for sp in (".end", ".END", ".End", "END", "End"):
        obs.append(Ob(oid=f"end/spelled-{sp}/unparsable-rest", harness=P + "h_end", params={"kind": "single", "spelling": sp, "junk": "unparsable"},
                      vars={"B": "int", "X": "int"}, timeout=300))
    for order_ in ("a-then-b", "b-then-a"):
        obs.append(Ob(oid=f"once-spellings/{order_}", harness=P + "h_once_spellings", params={"order": order_}, vars={"B": "int", "X": "int"}, timeout=300))
    for kind in ("mutual", "self", "re-entered"):
        obs.append(Ob(oid=f"once-cycle/{kind}", harness=P + "h_once_cycle", params={"kind": kind}, vars={"B": "int", "X": "int"}, timeout=300))
    for kind in ("linked-then-included", "linked-twice", "included-then-linked"):
        obs.append(Ob(oid=f"once-linked/{kind}", harness=P + "h_once_linked", params={"kind": kind}, vars={"B": "int", "X": "int"}, timeout=300))
    for k in (1, 2, 3):
        obs.append(Ob(oid=f"once/{k}", harness=P + "h_once", params={"times": k}, vars={"B": "int", "X": "int"}, timeout=300))
    return obs
