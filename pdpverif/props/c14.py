"""C14  The BK charset is a bijection consistent with ASCII and KOI-8."""
from ..common import require, concretize, notrace
from ..obligations import Ob
from ..symasm import assemble

P = "pdpverif.props.c14:"

META = {
    "claim": "for every byte b: encode(decode(b)) == b, decode(b) == chr(b) for b <= 0x7E and == KOI8-R for b >= 0xC0; for every code point c: "
             "either c encodes to a byte whose decoding table entry contains c, or UnicodeEncodeError names exactly the offending positions; "
             "'.ascii'/'c with an unencodable character fail with invalid-character and never emit a byte",
    "technique": "CrossHair symbolic execution of bk_encoding.encode/decode (and CharLiteral.resolve / ascii_impl on top) with a symbolic byte / "
                 "code point; z3 enumerates the table classes and decides the complement class in one path",
    "bounds": "all 256 bytes; code points: quick 0..0xFFFF, thorough 0..0x10FFFF (surrogates excluded); two-character strings with one symbolic "
              "character beside a fixed encodable or unencodable neighbour",
    "outside": ["strings longer than two characters (position arithmetic of the error is only decided for the two-character family)",
                "what the lexer does to a literal character before the codec sees it is not reachable symbolically (the character is injected after "
                "the parse): covered by the concrete side check 'surface/text-sweep' (every BMP character as literal source text)"],
    "structure": "byte round trip; code point classes; 4 neighbour layouts; .ascii, 'c and tape-name surfacing; a string after the same letters in the other case",
    "stubs": [],
}

KOI_LO, KOI_HI = 0xC0, 0x100


def _codec():
    from pdpy11 import bk_encoding
    return bk_encoding


def h_byte(params, vals, ctx):
    bk = _codec()
    b = vals["X"]
    require(0 <= b < 256)
    b = concretize(b)  # one path per byte value: 256 solver-enumerated paths
    raw = bytes([b])
    s = raw.decode("bk")
    ctx.observe(s)
    if len(s) != 1:
        return False
    if s.encode("bk") != raw:
        return False
    if b <= 0x7E and s != chr(b):
        return False
    if b >= KOI_LO and s != raw.decode("koi8_r"):
        return False
    # every alternative spelling of the table entry maps back to the same byte
    for alt in bk.DECODING_TABLE[b]:
        if alt.encode("bk") != raw:
            return False
    return True


def h_injective(params, vals, ctx):
    """Two different bytes never decode to the same character (bijection)."""
    a, b = vals["X"], vals["Y"]
    require(0 <= a < 256 and 0 <= b < 256 and a != b)
    require(a // 16 == params["shard"])
    a, b = concretize(a), concretize(b)
    return bytes([a]).decode("bk") != bytes([b]).decode("bk")


def h_codepoint(params, vals, ctx):
    bk = _codec()
    c = vals["C"]
    require(0 <= c < params.get("max_cp", 0x10000))
    require(c < 0xD800 or c >= 0xE000)
    ch = chr(c)
    encodable = False
    for entry in bk.DECODING_TABLE:  # the table is the specification of "its table" (256 entries, read at run time)
        for alt in entry:
            if alt == ch:
                encodable = True
    try:
        r = ch.encode("bk")
    except UnicodeEncodeError as e:
        ctx.reach(True)
        return (not encodable) and e.start == 0 and e.end == 1 and e.encoding == "bk"
    ctx.reach(True)
    if not encodable or len(r) != 1:
        return False
    if c <= 0x7E and r[0] != c:
        return False
    return ch in bk.DECODING_TABLE[r[0]]


def h_pair(params, vals, ctx):
    """One symbolic character beside a fixed neighbour: the error names exactly the offending positions."""
    bk = _codec()
    c = vals["C"]
    require(0 <= c < 0x10000 and (c < 0xD800 or c >= 0xE000))
    if params.get("windows"):
        ok = False
        for lo, hi in params["windows"]:
            ok = ok or (lo <= c < hi)
        require(ok)
    ch = chr(c)
    fixed, pos = params["fixed"], params["pos"]
    s = (ch + fixed) if pos == 0 else (fixed + ch)
    enc_fixed = all(any(f in e for e in bk.DECODING_TABLE) for f in fixed)
    enc_ch = False
    for entry in bk.DECODING_TABLE:
        for alt in entry:
            if alt == ch:
                enc_ch = True
    bad = [i for i in range(2) if not ((enc_ch if i == pos else enc_fixed))]
    try:
        r = s.encode("bk")
    except UnicodeEncodeError as e:
        ctx.reach(True)
        if not bad:
            return False
        return e.start == bad[0] and e.end == bad[-1] + 1
    ctx.reach(True)
    return (not bad) and len(r) == 2


def h_surface(params, vals, ctx):
    """An unencodable character in .ascii / 'c is an assembly error, never a byte."""
    bk = _codec()
    ch = vals["S_1"]
    require(len(ch) == 1)
    c = ord(ch)
    require(c < 0xD800 or c >= 0xE100)
    require(c not in (9, 10, 13) and ch not in "\"\\/'")
    ok = False
    for lo, hi in params["windows"]:
        ok = ok or (lo <= c < hi)
    require(ok)
    c = concretize(c)
    ch = chr(c)
    vals = {**vals, "S_1": ch}
    if params["kind"] == "ascii-after-other-case":
        return _after_other_case(ch, vals, ctx, bk)
    if params["kind"] == "tape-name":
        return _tape_name(ch, vals, ctx, bk)
    text = {"ascii": '.ascii "a{S_1}"\n', "char": ".word '{S_1}\n",
            "ascii-late-byte": '.ascii "a{S_1}"<late>\nlate = 1\n', "ascii-late-byte-first": '.ascii <late>"a{S_1}"\n.byte late2\nlate = 1\nlate2 = 2\n'}[params["kind"]]
    o = assemble([("a.mac", text)], vals, route=ctx.route, charset="bk")
    ctx.observe_outcome(o)
    ctx.reach(o.status in ("ok", "failed"))
    # the same text once more in the same process (fresh parse, fresh Compiler): the verdict may not change
    o_again = assemble([("b.mac", ".word 1\n" + text)], vals, route=ctx.route, charset="bk")
    if o_again.status != o.status or o_again.error_ids != o.error_ids:
        return False
    encodable = any(ch in e for e in bk.DECODING_TABLE)
    if not encodable:
        return o.status == "failed" and "invalid-character" in o.error_ids
    if o.status != "ok" or o.errors:
        return False
    byte = [i for i, e in enumerate(bk.DECODING_TABLE) if ch in e][0]
    if params["kind"] == "ascii":
        return bytes(o.code) == bytes([97, byte])
    if params["kind"] == "ascii-late-byte":
        return bytes(o.code) == bytes([97, byte, 1])
    if params["kind"] == "ascii-late-byte-first":
        return bytes(o.code) == bytes([1, 97, byte, 2])
    return bytes(o.code) == bytes([byte, 0])


def _enc(bk, ch):
    hits = [i for i, e in enumerate(bk.DECODING_TABLE) if ch in e]
    return hits[0] if hits else None


def _after_other_case(ch, vals, ctx, bk):
    """The bytes of a string do not depend on the strings assembled before it (here: the same letters in the other case)."""
    other = ch.swapcase() if len(ch.swapcase()) == 1 else ch
    require(_enc(bk, ch) is not None and _enc(bk, other) is not None and other not in "\"\\/'")
    vals = {**vals, "S_2": other}
    o = assemble([("a.mac", '.ascii "{S_2}x"\n.ascii "{S_1}x"\n.ascii "{S_2}X" "{S_1}X"\n.asciz "{S_1}"\n')], vals, route=ctx.route, charset="bk")
    ctx.observe_outcome(o)
    ctx.reach(o.status == "ok")
    if o.status != "ok" or o.errors:
        return False
    a, b = _enc(bk, ch), _enc(bk, other)
    return bytes(o.code) == bytes([b, 120, a, 120, b, 88, a, 88, a, 0])


def _tape_name(ch, vals, ctx, bk):
    """An unencodable character in an explicit tape name is refused like anywhere else."""
    o = assemble([("/w/a.mac", 'make_wav "o.wav", "n{S_1}"\n.word 1\n')], vals, route=ctx.route, charset="bk")
    ctx.observe_outcome(o)
    ctx.reach(o.status in ("ok", "failed"))
    code = _enc(bk, ch)
    if code is None:
        return o.status == "failed" and "invalid-character" in o.error_ids
    if o.status != "ok" or o.errors or len(o.comp.emitted_files) != 1:
        return False
    return bytes(o.comp.emitted_files[0][4]) == bytes([110, code]) + b" " * 14


def h_text_sweep(params, vals, ctx):
    """Concrete side check (the lexer works on concrete text): every BMP character written literally in '.ascii' and in a character
    literal gives the table's byte or invalid-character -- in particular nothing is folded, normalised or transliterated on the way in."""
    bk = _codec()
    k = vals["K"]
    require(0 <= k < 16)
    k = concretize(k)
    table = {}
    for i, e in enumerate(bk.DECODING_TABLE):
        for alt in e:
            table[alt] = i
    with notrace():
        for cp in range(k * 0x1000, (k + 1) * 0x1000):
            if cp < 0x20 or 0xD800 <= cp < 0xE000 or cp == 0x7F:
                continue
            ch = chr(cp)
            if ch in "\"\\/'\n\r" or ch.isspace():
                continue
            for kind, text in (("ascii", '.ascii "a' + ch + '"\n'), ("char", ".word '" + ch + "\n")):
                o = assemble([("a.mac", text)], {}, route="text", charset="bk")
                want = table.get(ch)
                if want is None:
                    if not (o.status == "failed" and "invalid-character" in o.error_ids):
                        ctx.observe(cp, kind, o.status)
                        return False
                else:
                    exp = bytes([97, want]) if kind == "ascii" else bytes([want, 0])
                    if o.status != "ok" or bytes(o.code) != exp:
                        ctx.observe(cp, kind, o.status)
                        return False
    ctx.reach(True)
    return True


def obligations(tier, seed):
    obs = [
        Ob(oid="byte/roundtrip", harness=P + "h_byte", params={}, vars={"X": "int"}, timeout=600, pre="0 <= X < 256"),
        Ob(oid="codepoint/classes", harness=P + "h_codepoint", params={"max_cp": 0x110000 if tier == "thorough" else 0x10000},
           vars={"C": "int"}, timeout=900, per_path=120, pre="every code point (no surrogates)"),
    ]
    # injectivity of decode follows from the round trip (encode(decode(b)) == b for all 256 b), so no separate obligation
    win = [(0x20, 0x80), (0xA0, 0x100), (0x400, 0x460), (0x2500, 0x2520), (0x2660, 0x2668)]
    for fixed, nm in (("A", "enc"), ("é", "unenc"), ("ю", "cyr")):
        for pos in (0, 1):
            obs.append(Ob(oid=f"pair/{nm}/sym-at-{pos}", harness=P + "h_pair", params={"fixed": fixed, "pos": pos, "windows": None if tier == "thorough" else win},
                          vars={"C": "int"}, timeout=900, per_path=120))
    w2 = [(0x20, 0x100), (0x400, 0x460), (0x2190, 0x2194), (0x2500, 0x25A0), (0x2660, 0x2668)]
    obs.append(Ob(oid="surface/ascii-after-other-case", harness=P + "h_surface", params={"kind": "ascii-after-other-case", "windows": [(0x41, 0x7B), (0x410, 0x450)]},
                  vars={"S_1": "str"}, timeout=900))
    obs.append(Ob(oid="surface/tape-name", harness=P + "h_surface", params={"kind": "tape-name", "windows": [(0x20, 0x100), (0x400, 0x460), (0x2500, 0x2510)]},
                  vars={"S_1": "str"}, timeout=900))
    obs.append(Ob(oid="surface/text-sweep", harness=P + "h_text_sweep", params={}, vars={"K": "int"}, timeout=1500, per_path=300,
                  note="concrete side check: all BMP characters as literal source text, 16 blocks of 4096"))
    for kind in ("ascii", "char", "ascii-late-byte", "ascii-late-byte-first"):
        obs.append(Ob(oid=f"surface/{kind}", harness=P + "h_surface", params={"kind": kind, "windows": w2}, vars={"S_1": "str"}, timeout=900))
    return obs
