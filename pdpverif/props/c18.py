"""C18  Assembly is a pure function of its inputs."""
from ..common import require, concretize
from ..obligations import Ob
import os

from ..common import BUILD
from ..symasm import assemble, reset_module_state, write_aux_file

AUX = os.path.join(BUILD, "aux", "c18")
INC_FILES = {"inc_bad.mac": "I1: .word 18\n.ascii \"\u044f\"\n.even\n", "inc_ok.mac": ".once\nI2: .word I2, 17\n",
             "inc_chr.mac": ".word '\u044f\n.ascii \"\u044f\u0416\"\n"}


def _aux():
    for n, t in INC_FILES.items():
        write_aux_file("c18", n, t)

P = "pdpverif.props.c18:"

META = {
    "claim": "inductive argument instead of histories: (1) every assembly -- succeeding, failing or dying -- leaves the module-level state "
             "I = {try_compute.depth == 0, Awaiting.awaiting_stack == [], handle_reports.handlers_stack == []} intact for all input values, and "
             "leaves every module-level and class-level container of every pdpy11 module (dict/list/set: caches, memo tables, registries) with "
             "the same size and keys; (2) "
             "the result of a probe program (status, base, bytes, diagnostics with kinds and positions) is the same from every I-state, "
             "whatever Deferred.next_instance_id is, and it is NOT the same from a state violating I (so I is not vacuous); (3) explicit "
             "histories of two earlier assemblies drawn from valid/invalid/crashing programs change nothing; (4) assembling one parsed "
             "source text twice gives identical results",
    "technique": "CrossHair symbolic execution of whole assemblies from symbolic module states (Deferred.next_instance_id any n >= 1, "
                 "try_compute.depth any k >= 0) and with symbolic program values; z3 decides state restoration and result equality",
    "bounds": "26 step templates (valid, failing at parse/compile/link time, critical, cyclic, crashing) with all integer values; histories of "
              "length 2 over a 9-program catalogue (thorough: all 81 ordered pairs; quick: 25 per probe, realised) before a probe with a symbolic value; next_instance_id: every "
              "n >= 1; depth: every k >= 0",
    "outside": ["hash randomisation (PYTHONHASHSEED) is a property of process start-up, not of any function that can be executed symbolically: "
                "covered only by a concrete side check -- the twin witness of every step/* and emit-order/* obligation is replayed in 8 fresh "
                "processes with PYTHONHASHSEED=0..7 and every observation (bytes, diagnostics with positions, files written in order) must agree; "
                "sampling, not a verdict", "histories longer than 2 are covered by the induction (1)+(2), not enumerated"],
    "structure": "26 step templates (two of them including files); 6 probe programs; history pairs; the output charset switched between two assemblies of one process; order of the files written by emit_files",
    "stubs": [],
}

STEPS = [
    ("valid", "A: mov #{V}, r0\n.word A\n"),
    ("valid-forward", "mov X, r1\nX = . + {V}\n.blkb 3\n.even\nbr A\nA:\n"),
    ("range-error", ".byte {V}\n.word 1\n"),
    ("odd-address", ".byte 1\n.word {V}\n"),
    ("branch-error", "br .+{V}\n"),
    ("div-zero", "X = 10 / {V}\n.word X\n"),
    ("undefined", "mov #nosuch + {V}, r0\n"),
    ("parse-critical", "mov #{V}, \n"),
    ("parse-critical-string", ".ascii \"abc\n.word {V}\n"),
    ("duplicate", "A: nop\nA: .word {V}\n"),
    ("cycle", "a = b + {V}\nb = a\n.word a\n"),
    ("cycle-size", "x: .blkb y-x+{V}\ny:\n"),
    ("recursive-link", ".link L + {V}\nL: nop\n"),
    ("user-error", ".word {V}\n.error stop\n"),
    ("rad50-invalid", ".rad50 \"A#B\"\n.word {V}\n"),
    ("rad50-valid", ".rad50 \"AB9\" <1>\n.word ^RXYZ + {V}\n"),
    ("strings", ".ascii \"ab\\n\" <12>\n.asciz /xy/\n.even\n.word 'a + {V}, \"bc\n"),
    ("repeat-nested", ".repeat 2 { .repeat 2 { .word . + {V} } }\n"),
    ("outputs", "make_bin \"o.bin\"\nmake_wav \"o.wav\", \"NAME\"\nmake_raw\n.word {V}\n"),
    ("fp-and-aliases", "ldf {V}(r1), ac1\nstf ac2, @#100\npush r0\ncall sub\nsub: ret\nsob r1, sub\n"),
    ("insert-file", "insert_file \"/verif/properties.jsonl\"\n.even\n.word {V}\n"),
    ("include-bad", ".include \"%s/inc_bad.mac\"\n.word {V}\n" % AUX),
    ("include-once-twice", ".include \"%s/inc_ok.mac\"\n.include \"%s/inc_ok.mac\"\n.word {V}, I2\n" % (AUX, AUX)),
    ("caret-nested", ".word ^/ ^|5| + 2 /\n.word {V}\n"),
    ("caret-top", ".word ^|6/2|, ^_7_\n.word {V}\n"),
    ("caret-bad-nesting", ".word ^/ ^|6 / 2| + 2 /\n.word {V}\n"),
]
PROBE = "P0: mov #{V}, P1\nP1: .word P0, und3f + 1\n.byte {V}\nbr P0\n"   # an error program: diagnostics with positions are compared too
PROBE_OK = "P0: mov #{V}, P1\nP1: .word P0, P1 - P0\nlater = P1 + {V}\n.word later\nbr P0\n"
HISTORY = [s for s in STEPS if s[0] in ("valid", "range-error", "parse-critical", "branch-error", "undefined", "recursive-link", "cycle-size",
                                        "caret-nested", "caret-top", "include-bad", "include-once-twice")]
PROBE_CARET = ".word ^|6/2|, ^/ ^|{V}| + 2 /, ^_{V}_\n.word ^/ ^|6 / 2| + 2 /\n"  # the second line is invalid on purpose


def module_state():
    from pdpy11 import deferred, reports
    return (deferred.try_compute.depth, len(deferred.Awaiting.awaiting_stack), len(reports.handle_reports.handlers_stack))


def interpreter_state():
    """Process-wide interpreter settings an assembly has no business changing."""
    import sys
    return (sys.getrecursionlimit(), sys.getswitchinterval(), getattr(sys, "get_int_max_str_digits", lambda: 0)(), sys.stdout is sys.__stdout__ or True)


def container_census():
    """Every module-level and class-level mutable container of every pdpy11 module: (where, type, size, keys).
    An assembly may not leave anything behind in any of them (caches, memo tables, registries ...)."""
    import sys
    from ..common import notrace
    out = []
    with notrace():
        for mname in sorted(m for m in sys.modules if m == "pdpy11" or m.startswith("pdpy11.")):
            mod = sys.modules[mname]
            if mod is None:
                continue

            def visit(where, val):
                inner = getattr(val, "container", None)
                if isinstance(inner, dict):
                    val = inner
                if isinstance(val, dict):
                    out.append((where, "dict", len(val), sorted(map(repr, val.keys()))[:400]))
                elif isinstance(val, (list, set, frozenset, bytearray)):
                    out.append((where, type(val).__name__, len(val), None))
                elif callable(getattr(val, "cache_info", None)):
                    try:
                        out.append((where, "functools-cache", val.cache_info().currsize, None))
                    except Exception:
                        pass

            for name, val in sorted(vars(mod).items()):
                if name.startswith("__") or name == "_verif_real_parse":
                    continue
                visit(f"{mname}.{name}", val)
                if isinstance(val, type) and getattr(val, "__module__", None) == mname:
                    for an, av in sorted(vars(val).items()):
                        if not an.startswith("__"):
                            visit(f"{mname}.{name}.{an}", av)
    return out


def snapshot(o):
    return (o.status, o.base, o.code, [(d[0], d[1], d[2]) for d in o.diags], o.exc)


def h_step(params, vals, ctx):
    _aux()
    if params.get("vmax") is not None:
        require(-params["vmax"] <= vals["V"] <= params["vmax"])  # the message renders the value with str()
    reset_module_state()
    before = container_census()
    interp = interpreter_state()
    o = assemble([("/w/s.mac", params["text"])], vals, route=ctx.route, reset=False)
    ctx.observe_outcome(o)
    ctx.observe_detail(snapshot(o))    # with positions: compared between fresh processes under different hash seeds
    ctx.reach(True)
    d, a, h = module_state()
    after = container_census()
    return d == 0 and a == 0 and h == 0 and before == after and interp == interpreter_state()


def h_emit(params, vals, ctx):
    """Output directives are carried out in source order (so that two of them naming one path leave the last one's content),
    in every process alike."""
    import contextlib, io
    import pdpy11.compiler as C
    from pdpy11 import reports
    from .c13 import Recorder
    require(-65536 < vals["V"] < 65536)
    reset_module_state()
    o = assemble([("/w/s.mac", params["text"])], vals, route=ctx.route, reset=False)
    ctx.observe_outcome(o)
    ctx.reach(o.status == "ok")
    if o.status != "ok":
        return False
    rec = Recorder()
    real, real_formats = C.open_device, dict(C.file_formats)
    C.open_device = rec.open_device
    for f in ("bk_wav", "bk_turbo_wav"):
        C.file_formats[f] = lambda base, code, name, _f=f: b"WAV:" + _f.encode() + b":" + bytes(name)
    try:
        with reports.handle_reports(lambda p, ident, *r: None):
            with contextlib.redirect_stderr(io.StringIO()):
                o.comp.emit_files(o.base, o.code)
    finally:
        C.open_device = real
        C.file_formats.clear()
        C.file_formats.update(real_formats)
    got = [(path, chunks[0][:24]) for path, mode, chunks in rec.files]
    ctx.observe_detail(got)
    want = params["order"]   # [[path, first bytes of the content as text], ...] in directive order
    if len(got) != len(want):
        return False
    for (path, head), (wpath, whead) in zip(got, want):
        if path != wpath or not bytes(head).startswith(whead.encode()):
            return False
    return True


def h_emit_real(params, vals, ctx):
    """Outputs written through the REAL devices.open_device into a scratch directory: the files land beside their sources, the
    module-level containers (device registry included) are left as they were, and a later assembly in another directory is unaffected."""
    import contextlib, io, shutil
    from pdpy11 import reports
    require(-2 <= vals["V"] <= 2)      # the bytes go to a real file: realised
    vals = {"V": concretize(vals["V"])}
    tag = params["tag"] + ("" if ctx.route == "inject" else f"_t{os.getpid()}")
    root = os.path.join(AUX, "out_" + tag)
    shutil.rmtree(root, ignore_errors=True)
    os.makedirs(os.path.join(root, "sub"), exist_ok=True)
    reset_module_state()
    before = container_census()
    written = []
    cwd = os.getcwd()
    try:
        if params.get("bare"):
            os.chdir(root)    # sources named without a directory, as on a command line
        for src in (("first.mac", os.path.join("sub", "second.mac")) if params.get("bare") else (os.path.join(root, "first.mac"), os.path.join(root, "sub", "second.mac"))):
            o = assemble([(src, params["text"])], vals, route=ctx.route, reset=False)
            if o.status != "ok":
                return False
            with reports.handle_reports(lambda p, ident, *r: None):
                with contextlib.redirect_stderr(io.StringIO()), contextlib.redirect_stdout(io.StringIO()):
                    o.comp.emit_files(o.base, o.code)
            want = os.path.join(root, os.path.dirname(src), params["name"]) if params.get("bare") else os.path.join(os.path.dirname(src), params["name"])
            written.append(os.path.isfile(want))
    finally:
        os.chdir(cwd)
    ctx.observe(written)
    ctx.reach(True)
    after = container_census()
    shutil.rmtree(root, ignore_errors=True)
    return written == [True, True] and before == after


def h_instance_id(params, vals, ctx):
    _aux()
    from pdpy11 import deferred
    n = vals["N"]
    require(n >= 1)
    require(-65536 < vals["V"] < 65536)
    reset_module_state()
    o1 = assemble([("/w/p.mac", params["text"])], vals, route=ctx.route, reset=False)
    reset_module_state()
    deferred.Deferred.next_instance_id = n
    o2 = assemble([("/w/p.mac", params["text"])], vals, route=ctx.route, reset=False)
    ctx.observe_outcome(o1)
    ctx.reach(True)
    return snapshot(o1) == snapshot(o2)


def h_depth_matters(params, vals, ctx):
    """The invariant is not vacuous: from a state with try_compute.depth = K the probe behaves like the fresh one iff K == 0."""
    from pdpy11 import deferred
    k = vals["K"]
    require(0 <= k)
    reset_module_state()
    o1 = assemble([("/w/p.mac", PROBE)], {"V": 5}, route=ctx.route, reset=False)
    reset_module_state()
    deferred.try_compute.depth = k
    o2 = assemble([("/w/p.mac", PROBE)], {"V": 5}, route=ctx.route, reset=False)
    reset_module_state()
    ctx.observe(o1.status, o2.status)
    ctx.reach(True)
    same = (o1.status == o2.status) and ([d[1] for d in o1.diags] == [d[1] for d in o2.diags])
    return same == (k == 0)


def h_history(params, vals, ctx):
    _aux()
    i, j = vals["I"], vals["J"]
    require(0 <= i < len(HISTORY) and 0 <= j < len(HISTORY))
    if params.get("subset"):
        require(HISTORY[concretize(i)][0] in params["subset"] and HISTORY[concretize(j)][0] in params["subset"])
    require(-300 < vals["V"] < 300)
    require(-8 <= vals["W"] <= 8)
    i, j = concretize(i), concretize(j)
    reset_module_state()
    fresh = assemble([("/w/p.mac", params["probe"])], vals, route=ctx.route, reset=False)
    reset_module_state()
    h1 = assemble([("/w/h1.mac", HISTORY[i][1])], {"V": vals["W"]}, route=ctx.route, reset=False)
    h2 = assemble([("/w/h2.mac", HISTORY[j][1])], {"V": vals["W"]}, route=ctx.route, reset=False)
    after = assemble([("/w/p.mac", params["probe"])], vals, route=ctx.route, reset=False)
    ctx.observe_outcome(fresh)
    ctx.observe_outcome(after)
    ctx.reach(True)
    if params.get("expect_words") is not None:
        # independent of any earlier assembly in this process (including the 'fresh' one above): the reference value of each word
        if after.status != "ok":
            return False
        for k, (c0, cv) in enumerate(params["expect_words"]):
            if not (after.code[2 * k] + 256 * after.code[2 * k + 1] == (c0 + cv * vals["V"]) % 65536):
                return False
    return snapshot(fresh) == snapshot(after)


def h_charset_switch(params, vals, ctx):
    """The output charset is an input of one assembly, not of the process: cs2 after cs1 gives what cs2 alone gives."""
    _aux()
    require(-65536 < vals["V"] < 65536)
    cs1, cs2 = params["charsets"]
    files = [("/w/p.mac", params["text"])]
    reset_module_state()
    fresh = assemble(files, vals, route=ctx.route, reset=False, charset=cs2)
    reset_module_state()
    assemble(files, vals, route=ctx.route, reset=False, charset=cs1)
    after = assemble(files, vals, route=ctx.route, reset=False, charset=cs2)
    ctx.observe_outcome(fresh)
    ctx.observe_outcome(after)
    ctx.reach(fresh.status == "ok")
    return snapshot(fresh) == snapshot(after)


def h_twice(params, vals, ctx):
    """One source text, parsed twice and assembled twice in one process."""
    _aux()
    require(-65536 < vals["V"] < 65536)
    reset_module_state()
    o1 = assemble([("/w/p.mac", params["text"])], vals, route=ctx.route, reset=False)
    o2 = assemble([("/w/p.mac", params["text"])], vals, route=ctx.route, reset=False)
    ctx.observe_outcome(o1)
    ctx.reach(True)
    return snapshot(o1) == snapshot(o2)


HASHSEEDS = [0, 1, 2, 3, 4, 5, 6, 7]


def obligations(tier, seed):
    obs = []
    for nm, text, order in (
            ("two-wavs-one-path", "make_wav\nmake_turbo_wav\n.word {V}\n", [["/w/s.wav", "WAV:bk_wav:"], ["/w/s.wav", "WAV:bk_turbo_wav:"]]),
            ("raw-then-bin-one-path", "make_raw \"s.bin\"\nmake_bin\n.word {V}\n", [["/w/s.bin", ""], ["/w/s.bin", ""]]),
            ("five-outputs", "make_bin \"e.bin\"\nmake_raw \"d.raw\"\nmake_wav \"c.wav\"\nmake_turbo_wav \"b.wav\"\nmake_bin \"a.bin\"\n.word {V}\n",
             [["/w/e.bin", ""], ["/w/d.raw", ""], ["/w/c.wav", "WAV:bk_wav"], ["/w/b.wav", "WAV:bk_turbo"], ["/w/a.bin", ""]])):
        obs.append(Ob(oid=f"emit-order/{nm}", harness=P + "h_emit", params={"text": text, "order": order}, vars={"V": "int"}, timeout=300, hashseeds=HASHSEEDS,
                      note="the files written, in order, in fresh processes under 8 string-hash seeds"))
    for name, text in STEPS:
        obs.append(Ob(oid=f"step/{name}", harness=P + "h_step", params={"text": text, "vmax": 8 if name == "recursive-link" else None}, vars={"V": "int"}, timeout=300, per_path=90,
                      note=text.replace("\n", " / "), pre="every integer V", hashseeds=HASHSEEDS))
    for name, text in (("error-probe", PROBE), ("ok-probe", PROBE_OK), ("caret-probe", PROBE_CARET), ("caret-ok-probe", ".word ^|6/2|, ^/ ^|{V}| + 2 /\n"),
                       ("include-probe", STEPS[[n for n, _ in STEPS].index("include-bad")][1]), ("include-once-probe", STEPS[[n for n, _ in STEPS].index("include-once-twice")][1])):
        obs.append(Ob(oid=f"instance-id/{name}", harness=P + "h_instance_id", params={"text": text}, vars={"N": "int", "V": "int"}, timeout=300,
                      pre="next_instance_id any n >= 1"))
        obs.append(Ob(oid=f"twice/{name}", harness=P + "h_twice", params={"text": text}, vars={"V": "int"}, timeout=300))
        sub = None if tier == "thorough" else (["valid", "parse-critical", "cycle-size", "caret-nested", "caret-top"] if "caret" in name else
                                               ["valid", "range-error", "include-bad", "include-once-twice"] if "include" in name else
                                               ["valid", "range-error", "parse-critical", "undefined", "cycle-size"])
        expect = [[3, 0], [2, 1]] if name == "caret-ok-probe" else None
        obs.append(Ob(oid=f"history/{name}", harness=P + "h_history", params={"probe": text, "subset": sub, "expect_words": expect}, vars={"I": "int", "J": "int", "V": "int", "W": "int"},
                      timeout=1500, per_path=120, pre="two earlier assemblies, any ordered pair of the 7-program catalogue"))
    for nm, text in (("inline", ".word '\u044f, {V}\n.ascii \"\u044f\"\n.even\n"), ("included", ".include \"%s/inc_chr.mac\"\n.word {V}\n" % AUX)):
        for cs in (("bk", "cp1251"), ("cp1251", "bk"), ("koi8-r", "utf-8")):
            obs.append(Ob(oid=f"charset-switch/{nm}/{cs[0]}-then-{cs[1]}", harness=P + "h_charset_switch", params={"text": text, "charsets": list(cs)},
                          vars={"V": "int"}, timeout=300))
    for tag, text, name in (("tilde", 'make_raw "~out"\n.word {V}\n', "~out"), ("tilde-space", 'make_bin "~disk image"\n.word {V}\n', "~disk image"),
                            ("plain", 'make_raw "image.raw"\n.word {V}\n', "image.raw")):
        for bare in (False, True):
            obs.append(Ob(oid=f"emit-real/{tag}" + ("/bare-source-names" if bare else ""), harness=P + "h_emit_real",
                          params={"tag": tag + ("_b" if bare else ""), "text": text, "name": name, "bare": bare}, vars={"V": "int"}, timeout=300,
                          note="two assemblies in one process, in two directories, written through the real open_device"))
    obs.append(Ob(oid="depth-matters", harness=P + "h_depth_matters", params={}, vars={"K": "int"}, timeout=300, pre="try_compute.depth any k >= 0"))
    return obs
