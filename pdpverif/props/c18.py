"""C18  Assembly is a pure function of its inputs."""
from ..common import require, concretize
from ..obligations import Ob
from ..symasm import assemble, reset_module_state

P = "pdpverif.props.c18:"

META = {
    "claim": "inductive argument instead of histories: (1) every assembly -- succeeding, failing or dying -- leaves the module-level state "
             "I = {try_compute.depth == 0, Awaiting.awaiting_stack == [], handle_reports.handlers_stack == []} intact for all input values; (2) "
             "the result of a probe program (status, base, bytes, diagnostics with kinds and positions) is the same from every I-state, "
             "whatever Deferred.next_instance_id is, and it is NOT the same from a state violating I (so I is not vacuous); (3) explicit "
             "histories of two earlier assemblies drawn from valid/invalid/crashing programs change nothing; (4) assembling one parsed "
             "source text twice gives identical results",
    "technique": "CrossHair symbolic execution of whole assemblies from symbolic module states (Deferred.next_instance_id any n >= 1, "
                 "try_compute.depth any k >= 0) and with symbolic program values; z3 decides state restoration and result equality",
    "bounds": "14 step templates (valid, failing at parse/compile/link time, critical, cyclic, crashing) with all integer values; histories of "
              "length 2 over a 7-program catalogue (49 ordered pairs, realised) before a probe with a symbolic value; next_instance_id: every "
              "n >= 1; depth: every k >= 0",
    "outside": ["hash randomisation (PYTHONHASHSEED) is a property of process start-up, not of any function that can be executed symbolically; "
                "pdpy11 iterates only lists and insertion-ordered dicts (no set iteration, no hash() use -- by reading), stated as an argument, "
                "not a verdict", "histories longer than 2 are covered by the induction (1)+(2), not enumerated"],
    "structure": "step templates; probe programs; history pairs",
    "stubs": [],
}

STEPS = [
    ("valid", "A: mov #{V}, r0\n.word A\n"),
    ("valid-forward", "mov X, r1\nX = . + {V}\n.blkb 3\n.even\nbr A\nA:\n"),
    ("range-error", ".byte {V}\n.word 1\n"),
    ("odd-address", ".byte 1\n.word {V}\n"),
    ("branch-error", "br .+{V}\n"),
    ("div-zero", "X = 10 / {V}\n.word X\n"),
    ("undefined", "mov #nosuch + {V}, r0\n"),
    ("parse-critical", "mov #{V}, \n"),
    ("parse-critical-string", ".ascii \"abc\n.word {V}\n"),
    ("duplicate", "A: nop\nA: .word {V}\n"),
    ("cycle", "a = b + {V}\nb = a\n.word a\n"),
    ("cycle-size", "x: .blkb y-x+{V}\ny:\n"),
    ("recursive-link", ".link L + {V}\nL: nop\n"),
    ("user-error", ".word {V}\n.error stop\n"),
]
PROBE = "P0: mov #{V}, P1\nP1: .word P0, und3f + 1\n.byte {V}\nbr P0\n"   # an error program: diagnostics with positions are compared too
PROBE_OK = "P0: mov #{V}, P1\nP1: .word P0, P1 - P0\nlater = P1 + {V}\n.word later\nbr P0\n"
HISTORY = [s for s in STEPS if s[0] in ("valid", "range-error", "parse-critical", "branch-error", "undefined", "recursive-link", "cycle-size")]


def module_state():
    from pdpy11 import deferred, reports
    return (deferred.try_compute.depth, len(deferred.Awaiting.awaiting_stack), len(reports.handle_reports.handlers_stack))


def snapshot(o):
    return (o.status, o.base, o.code, [(d[0], d[1], d[2]) for d in o.diags], o.exc)


def h_step(params, vals, ctx):
    if params.get("vmax") is not None:
        require(-params["vmax"] <= vals["V"] <= params["vmax"])  # the message renders the value with str()
    reset_module_state()
    o = assemble([("/w/s.mac", params["text"])], vals, route=ctx.route, reset=False)
    ctx.observe_outcome(o)
    ctx.reach(True)
    d, a, h = module_state()
    return d == 0 and a == 0 and h == 0


def h_instance_id(params, vals, ctx):
    from pdpy11 import deferred
    n = vals["N"]
    require(n >= 1)
    require(-65536 < vals["V"] < 65536)
    reset_module_state()
    o1 = assemble([("/w/p.mac", params["text"])], vals, route=ctx.route, reset=False)
    reset_module_state()
    deferred.Deferred.next_instance_id = n
    o2 = assemble([("/w/p.mac", params["text"])], vals, route=ctx.route, reset=False)
    ctx.observe_outcome(o1)
    ctx.reach(True)
    return snapshot(o1) == snapshot(o2)


def h_depth_matters(params, vals, ctx):
    """The invariant is not vacuous: from a state with try_compute.depth = K the probe behaves like the fresh one iff K == 0."""
    from pdpy11 import deferred
    k = vals["K"]
    require(0 <= k)
    reset_module_state()
    o1 = assemble([("/w/p.mac", PROBE)], {"V": 5}, route=ctx.route, reset=False)
    reset_module_state()
    deferred.try_compute.depth = k
    o2 = assemble([("/w/p.mac", PROBE)], {"V": 5}, route=ctx.route, reset=False)
    reset_module_state()
    ctx.observe(o1.status, o2.status)
    ctx.reach(True)
    same = (o1.status == o2.status) and ([d[1] for d in o1.diags] == [d[1] for d in o2.diags])
    return same == (k == 0)


def h_history(params, vals, ctx):
    i, j = vals["I"], vals["J"]
    require(0 <= i < len(HISTORY) and 0 <= j < len(HISTORY))
    require(-300 < vals["V"] < 300)
    require(-8 <= vals["W"] <= 8)
    i, j = concretize(i), concretize(j)
    reset_module_state()
    fresh = assemble([("/w/p.mac", params["probe"])], vals, route=ctx.route, reset=False)
    reset_module_state()
    h1 = assemble([("/w/h1.mac", HISTORY[i][1])], {"V": vals["W"]}, route=ctx.route, reset=False)
    h2 = assemble([("/w/h2.mac", HISTORY[j][1])], {"V": vals["W"]}, route=ctx.route, reset=False)
    after = assemble([("/w/p.mac", params["probe"])], vals, route=ctx.route, reset=False)
    ctx.observe_outcome(fresh)
    ctx.observe_outcome(after)
    ctx.reach(True)
    return snapshot(fresh) == snapshot(after)


def h_twice(params, vals, ctx):
    """One source text, parsed twice and assembled twice in one process."""
    require(-65536 < vals["V"] < 65536)
    reset_module_state()
    o1 = assemble([("/w/p.mac", params["text"])], vals, route=ctx.route, reset=False)
    o2 = assemble([("/w/p.mac", params["text"])], vals, route=ctx.route, reset=False)
    ctx.observe_outcome(o1)
    ctx.reach(True)
    return snapshot(o1) == snapshot(o2)


def obligations(tier, seed):
    obs = []
    for name, text in STEPS:
        obs.append(Ob(oid=f"step/{name}", harness=P + "h_step", params={"text": text, "vmax": 8 if name == "recursive-link" else None}, vars={"V": "int"}, timeout=300, per_path=90,
                      note=text.replace("\n", " / "), pre="every integer V"))
    for name, text in (("error-probe", PROBE), ("ok-probe", PROBE_OK)):
        obs.append(Ob(oid=f"instance-id/{name}", harness=P + "h_instance_id", params={"text": text}, vars={"N": "int", "V": "int"}, timeout=300,
                      pre="next_instance_id any n >= 1"))
        obs.append(Ob(oid=f"twice/{name}", harness=P + "h_twice", params={"text": text}, vars={"V": "int"}, timeout=300))
        obs.append(Ob(oid=f"history/{name}", harness=P + "h_history", params={"probe": text}, vars={"I": "int", "J": "int", "V": "int", "W": "int"},
                      timeout=1500, per_path=120, pre="two earlier assemblies, any ordered pair of the 7-program catalogue"))
    obs.append(Ob(oid="depth-matters", harness=P + "h_depth_matters", params={}, vars={"K": "int"}, timeout=300, pre="try_compute.depth any k >= 0"))
    return obs
