"""C12  The link base is what the source says, or an error."""
import os

from ..common import require, BUILD
from ..obligations import Ob
from ..symasm import assemble, word_at, write_aux_file

AUX = os.path.join(BUILD, "aux", "c12")

H = "pdpverif.props.c12:h_link"
HS = "pdpverif.props.c12:h_skip"

META = {
    "claim": "base == value of the .link / leading '. =' expression (mod 2^16, |value| < 2^16 else value-out-of-bounds), 0o1000 by default; "
             "base-dependent terms that cancel are accepted, a non-zero coefficient of the base gives recursive-definition, a second .link gives "
             "address-conflict; '. = X' after the base is set zero-fills exactly X-. bytes forward and is refused backward",
    "technique": "CrossHair symbolic execution of set_link_address / LinearPolynomial._wait / Awaiting cycle detection; z3 decides base value "
                 "and accept/reject for all constants and coefficients",
    "bounds": "K, coefficients M, N: ALL integers; label distances concrete (2..12 bytes); forward skips 0..64 (length realised) and every "
              "negative skip; 1-2 files; directive first/middle/last",
    "outside": ["a non-leading '. = X' while no base has been set (the assembler treats it as .link; the property does not say)",
                "skips above 64 bytes", "'. = X' with -2^16 < X < 0 (wraps modulo 2^16 like a negative base)",
                "recursive-definition obligations: constants and coefficients limited to -8..8 (the message renders them with str())"],
    "structure": "expression shapes K, K+M*(E-S), K+M*(E-S)+N*(S-T), via intermediate symbols, >>0, <<1, /2 of differences, M*S (self-dependent); labels of included files (include first, in the middle, last); own labels shadowing names exported by an earlier file",
    "stubs": [],
}


def term_sum(terms, vals):
    """terms = [[const, [var, ...]], ...] -> sum const * prod(vars)"""
    r = 0
    for const, vs in terms:
        t = const
        for v in vs:
            t = t * vals[v]
        r = r + t
    return r


def h_link(params, vals, ctx):
    files = [(n, t) for n, t in params["files"]]
    if params.get("aux"):
        # real include files (concrete text) beside the source files
        for n, t in params["aux"]:
            write_aux_file("c12", n, t)
        files = [(os.path.join(AUX, n), t) for n, t in files]
    mode = params["mode"]
    # ---- assumptions first (they are not retroactive) -------------------------------------
    for v, (lo, hi) in (params.get("ranges") or {}).items():
        require(lo <= vals[v] <= hi)
    if mode == "recursive":
        # the recursive-definition message renders the polynomial with str(): CrossHair realises every number in it
        for v in vals:
            require(-8 <= vals[v] <= 8)
    if mode == "conflict":
        for v in vals:
            require(-65536 < vals[v] < 65536 and vals[v] % 2 == 0)
    value = term_sum(params["base"], vals) if mode != "conflict" else 0
    dep = term_sum(params["dep"], vals) if mode == "recursive" else 0
    in_range = -65536 < value < 65536
    has_words = any(".word" in t for _, t in files)
    if has_words and mode != "conflict":
        require(value % 2 == 0)  # word data on an odd address is an error of its own (C06)
        if in_range:
            # '.word LABEL' probes: an absolute word >= 2^16 is an error of its own (C09)
            require(value % 65536 + params.get("length", 0) <= 65536)
    # ---- the real code ---------------------------------------------------------------------
    o = assemble(files, vals, route=ctx.route)
    ctx.observe_outcome(o)
    if mode == "conflict":
        ctx.reach(o.status == "failed")
        return o.status == "failed" and "address-conflict" in o.error_ids
    if mode == "recursive" and not (dep == 0):
        ctx.reach(params.get("reach") == "reject")
        return o.status == "failed" and "recursive-definition" in o.error_ids
    ctx.reach(in_range and params.get("reach", "accept") == "accept")
    if not in_range:
        return o.status == "failed" and "value-out-of-bounds" in o.error_ids
    if o.status != "ok" or o.errors:
        return False
    base = value % 65536
    if not (o.base == base):
        return False
    for off, terms in params.get("probes", []):
        if not (word_at(o.code, off) == (base + term_sum(terms, vals)) % 65536):
            return False
    return len(o.code) == params["length"]


def h_skip(params, vals, ctx):
    b, s = vals["B"], vals["S"]
    require(0 <= b < 60000)
    require(s <= params.get("max_skip", 64))
    text = params["text"]
    x = b + params["pre_len"] + s
    require(x >= 0 or x <= -65536)  # new addresses in (-2^16, 0) wrap modulo 2^16 like a negative link base: not asserted
    o = assemble([("a.mac", text)], vals, route=ctx.route)
    ctx.observe_outcome(o)
    accept = s >= 0
    ctx.reach(accept)
    if not accept:
        return o.status == "failed" and "value-out-of-bounds" in o.error_ids
    if o.status != "ok" or o.errors:
        return False
    code = o.code
    pre = params["pre_len"]
    if len(code) != pre + s + 1:
        return False
    for i in range(pre, pre + s):
        if code[i] != 0:
            return False
    return code[pre + s] == 2 and o.symbol("L") == b + pre + s and o.base == b


def h_align_repeat(params, vals, ctx):
    """'. = (. + 3) / 4 * 4' (round the location up to a multiple of four) inside a '.repeat' body: every copy rounds its own '.'."""
    b, n = vals["B"], params["n"]
    require(16 <= b < 60000)
    expr = params["expr"]
    o = assemble([("a.mac", ".link {B}\n.repeat %d {\n.byte 1\n. = %s\n}\nL: .byte 2\n" % (n, expr))], vals, route=ctx.route)
    ctx.observe_outcome(o)
    ctx.reach(o.status == "ok")
    if o.status != "ok" or o.errors:
        return False
    m = params["m"]
    a = b
    for _ in range(n):
        a = a + 1
        a = a + (-a) % m
    code = o.code
    if len(code) != a - b + 1:
        return False
    pos = b
    for _ in range(n):
        if code[pos - b] != 1:
            return False
        pos = pos + 1
        pos = pos + (-pos) % m
    return code[a - b] == 2 and o.symbol("L") == a


def h_skip_repeat(params, vals, ctx):
    """'. = . + S' inside a '.repeat' body skips in every copy."""
    b, sk, n = vals["B"], vals["S"], params["n"]
    require(16 <= b < 60000)   # new addresses in (-2^16, 0) wrap modulo 2^16 like a negative link base: not asserted (see h_skip)
    require(-3 <= sk <= params.get("max_skip", 6))
    o = assemble([("a.mac", ".link {B}\n.repeat %d {\n.byte 1\n. = . + {S}\n}\nL: .byte 2\n" % n)], vals, route=ctx.route)
    ctx.observe_outcome(o)
    accept = sk >= 0
    ctx.reach(accept)
    if not accept:
        return o.status == "failed" and "value-out-of-bounds" in o.error_ids
    if o.status != "ok" or o.errors:
        return False
    code = o.code
    if len(code) != n * (1 + sk) + 1:
        return False
    for k in range(n):
        if code[k * (1 + sk)] != 1:
            return False
        for i in range(sk):
            if code[k * (1 + sk) + 1 + i] != 0:
                return False
    return code[n * (1 + sk)] == 2 and o.symbol("L") == b + n * (1 + sk) and o.base == b


def obligations(tier, seed):
    obs = []

    def add(tag, files, mode, base=None, vars_=None, **kw):
        params = {"files": files, "mode": mode, "base": base or [], **kw}
        obs.append(Ob(oid=tag, harness=H, params=params, vars={v: "int" for v in (vars_ or [])}, timeout=200, per_path=60,
                      note=" || ".join(t.replace("\n", " / ") for _, t in files)))

    body = "S: .word S\nE: .word E\n"
    probes = [[0, [[0, []]]], [2, [[2, []]]]]
    # default
    add("default", [("a.mac", "S: .word S, {K}\n")], "accept", base=[[0o1000, []]], vars_=["K"], probes=[[0, [[0, []]]]], length=4,
        ranges={"K": [-65535, 65535]})
    # .link K / leading '. = K' in different positions
    for where in ("first", "middle", "last"):
        for form in (".link {K}", ". = {K}"):
            if form.startswith(". =") and where != "first":
                continue
            if where == "first":
                text = form + "\n" + body
            elif where == "middle":
                text = "S: .word S\n" + form + "\nE: .word E\n"
            else:
                text = body + form + "\n"
            add(f"const/{where}/{form.split()[0]}", [("a.mac", text)], "accept", base=[[1, ["K"]]], vars_=["K"], probes=probes, length=4)
    # one of the labels of the cancelling difference lives in an included file (its own link-base promise is settled with the parent's)
    inc = [("c12_tbl.mac", "TBL:: .word 111, 222\nTBLEND::\n")]
    for tag, text, diff, plen in (
            ("include-first/K+FIN-TBL", ".include /c12_tbl.mac/\nX: .word X\n.link {K} + FIN - TBL\n.word 2\nFIN:\n", 8, 8),
            ("include-first/K+M*(FIN-TBLEND)", ".include /c12_tbl.mac/\nX: .word X\n.link {K} + {M} * (FIN - TBLEND)\n.word 2\nFIN:\n", None, 8),
            ("include-first/K+TBLEND-TBL", ".include /c12_tbl.mac/\nX: .word X\n.link {K} + TBLEND - TBL\n.word 2\nFIN:\n", 4, 8),
            ("include-first/link-last", ".include /c12_tbl.mac/\nX: .word X\n.word 2\nFIN:\n.link {K} + FIN - TBL\n", 8, 8),
            ("include-middle/K+TBLEND-TOP", "TOP: .word 1\n.include /c12_tbl.mac/\nX: .word X\n.link {K} + TBLEND - TOP\n", 6, 8),
            ("include-last/K+TBL-TOP", ".link {K} + TBL - X\n.word 1\nX: .word X\n.include /c12_tbl.mac/\n", 2, 8)):
        xoff = text.split("X: .word X")[0].count(".word") * 2 + (4 if text.split("X: .word X")[0].count(".include") else 0)
        if diff is None:
            add("cancel/" + tag, [("a.mac", text)], "accept", base=[[1, ["K"]], [4, ["M"]]], vars_=["K", "M"], probes=[[xoff, [[xoff, []]]]], length=plen, aux=inc)
        else:
            add("cancel/" + tag, [("a.mac", text)], "accept", base=[[1, ["K"]], [diff, []]], vars_=["K"], probes=[[xoff, [[xoff, []]]]], length=plen, aux=inc)
    # labels of the same names exported by an earlier file: the file's own (later) labels are the ones that cancel
    add("cancel/shadowed-export", [("a.mac", "FIRST:: .word 1\nLAST:: .word 2\n"), ("b.mac", ".link {K} + LAST - FIRST\nFIRST: .word 5, 6, 7\nLAST: .word LAST\n")],
        "accept", base=[[1, ["K"]], [6, []]], vars_=["K"], probes=[[10, [[10, []]]]], length=12)
    # in the second of two files / first of two files
    add("const/file2", [("a.mac", body), ("b.mac", ".link {K}\nT: .word T\n")], "accept", base=[[1, ["K"]]], vars_=["K"],
        probes=probes + [[4, [[4, []]]]], length=6)
    add("const/file1of2", [("a.mac", ".link {K}\n" + body), ("b.mac", "T: .word T\n")], "accept", base=[[1, ["K"]]], vars_=["K"],
        probes=probes + [[4, [[4, []]]]], length=6)
    # base-dependent terms that cancel
    prog3 = "T: .word T\n.blkb 6\nS: .word S\n.blkb 2\nE: .word E\n"  # T=0 S=8 E=12
    pr3 = [[0, [[0, []]]], [8, [[8, []]]], [12, [[12, []]]]]
    for where in ("first", "last"):
        def put(link):
            return (link + "\n" + prog3) if where == "first" else (prog3 + link + "\n")
        add(f"cancel/{where}/K+E-S", [("a.mac", put(".link {K} + E - S"))], "accept", base=[[1, ["K"]], [4, []]], vars_=["K"], probes=pr3, length=14)
        add(f"cancel/{where}/K+M*(E-S)", [("a.mac", put(".link {K} + {M} * (E - S)"))], "accept", base=[[1, ["K"]], [4, ["M"]]], vars_=["K", "M"],
            probes=pr3, length=14)
        add(f"cancel/{where}/K+M*(E-S)+N*(S-T)", [("a.mac", put(".link {K} + {M} * (E - S) + {N} * (S - T)"))], "accept",
            base=[[1, ["K"]], [4, ["M"]], [8, ["N"]]], vars_=["K", "M", "N"], probes=pr3, length=14)
        add(f"cancel/{where}/via-symbol", [("a.mac", put("LEN = E - S\n.link {K} + LEN * {M}"))], "accept", base=[[1, ["K"]], [4, ["M"]]],
            vars_=["K", "M"], probes=pr3, length=14)
        add(f"cancel/{where}/via-symbol-after", [("a.mac", put(".link {K} + LEN * {M}\nLEN = E - S"))], "accept", base=[[1, ["K"]], [4, ["M"]]],
            vars_=["K", "M"], probes=pr3, length=14)
        add(f"cancel/{where}/shr0", [("a.mac", put(".link {K} + ((E - S) >> 0)"))], "accept", base=[[1, ["K"]], [4, []]], vars_=["K"], probes=pr3, length=14)
        add(f"cancel/{where}/shl1", [("a.mac", put(".link {K} + ((E - T) << 1)"))], "accept", base=[[1, ["K"]], [24, []]], vars_=["K"], probes=pr3, length=14)
        add(f"cancel/{where}/div2", [("a.mac", put(".link {K} + (E - T) / 2"))], "accept", base=[[1, ["K"]], [6, []]], vars_=["K"], probes=pr3, length=14)
        add(f"cancel/{where}/mod", [("a.mac", put(".link {K} + (E - T) % 5"))], "accept", base=[[1, ["K"]], [2, []]], vars_=["K"], probes=pr3, length=14)
        # negative differences: / floors (-4/3 == -2), % takes the sign of the divisor (-4 % 3 == 2)
        add(f"cancel/{where}/negdiv3", [("a.mac", put(".link {K} + (S - E) / 3"))], "accept", base=[[1, ["K"]], [-2, []]], vars_=["K"], probes=pr3, length=14)
        add(f"cancel/{where}/negdiv2-exact", [("a.mac", put(".link {K} + (T - E) / 2"))], "accept", base=[[1, ["K"]], [-6, []]], vars_=["K"], probes=pr3, length=14)
        add(f"cancel/{where}/negmod3", [("a.mac", put(".link {K} + (S - E) % 3"))], "accept", base=[[1, ["K"]], [2, []]], vars_=["K"], probes=pr3, length=14)
        add(f"cancel/{where}/negdiv-via-symbol", [("a.mac", put("HALF = (S - E) / 3\n.link {K} + HALF * 2"))], "accept", base=[[1, ["K"]], [-4, []]], vars_=["K"], probes=pr3, length=14)
    # labels in another file
    add("cancel/other-file", [("a.mac", ".link {K} + {M} * (E - S)\n.word 1\n"), ("b.mac", "S:: .word 2, 3\nE:: .word 4\n")], "accept",
        base=[[1, ["K"]], [4, ["M"]]], vars_=["K", "M"], length=8)
    # three linked files: the link expression and the probes use labels of the second and third file
    f3 = [("a.mac", "T:: .word T, 1\n.byte 1, 2\n"), ("b.mac", "S:: .word S, T\n.word 3\n"), ("c.mac", "E:: .word E, S\n")]
    pr3f = [[0, [[0, []]]], [6, [[6, []]]], [8, [[0, []]]], [12, [[12, []]]], [14, [[6, []]]]]
    for where, files in (("first", [("a.mac", ".link {K} + {M} * (E - S)\n" + f3[0][1]), f3[1], f3[2]]),
                         ("last", [f3[0], f3[1], ("c.mac", f3[2][1] + ".link {K} + {M} * (E - S)\n")]),
                         ("middle", [f3[0], ("b.mac", ".link {K} + {M} * (E - T)\n" + f3[1][1]), f3[2]])):
        coef = 6 if where != "middle" else 12
        add(f"cancel/three-files/{where}", files, "accept", base=[[1, ["K"]], [coef, ["M"]]], vars_=["K", "M"], probes=pr3f, length=16)
    # genuinely self-dependent
    for where in ("first", "last"):
        def put(link):
            return (link + "\n" + prog3) if where == "first" else (prog3 + link + "\n")
        add(f"recursive/{where}/K+M*S", [("a.mac", put(".link {K} + {M} * S"))], "recursive", base=[[1, ["K"]]], dep=[[1, ["M"]]], vars_=["K", "M"],
            probes=pr3, length=14)
        add(f"recursive/{where}/K+M*S/reject", [("a.mac", put(".link {K} + {M} * S"))], "recursive", base=[[1, ["K"]]], dep=[[1, ["M"]]], vars_=["K", "M"],
            probes=pr3, length=14, reach="reject")
        add(f"recursive/{where}/M*E-N*S", [("a.mac", put(".link {K} + {M} * E - {N} * S"))], "recursive", base=[[1, ["K"]], [12, ["M"]], [-8, ["N"]]],
            dep=[[1, ["M"]], [-1, ["N"]]], vars_=["K", "M", "N"], probes=pr3, length=14)
        add(f"recursive/{where}/dot", [("a.mac", put(".link . + {K}"))], "recursive", base=[], dep=[[1, []]], vars_=["K"], reach="reject")
    # second .link
    add("conflict/two-links", [("a.mac", ".link {K}\n.word 1\n.link {M}\n")], "conflict", vars_=["K", "M"])
    add("conflict/link-then-file2", [("a.mac", ".link {K}\n.word 1\n"), ("b.mac", ".link {M}\n.word 2\n")], "conflict", vars_=["K", "M"])
    add("conflict/two-identical-links", [("a.mac", ".link {K}\n.word 1\n.link {K}\n")], "conflict", vars_=["K"])
    add("conflict/identical-links-two-files", [("a.mac", ".link {K} + LA - FA\nFA: .word 1\nLA:\n"), ("b.mac", ".link {K} + LA - FA\nFA: .word 2, 3\nLA:\n")], "conflict", vars_=["K"])
    add("conflict/dot-then-link", [("a.mac", ". = {K}\n.word 1\n.link {M}\n")], "conflict", vars_=["K", "M"])
    # '. = X' once the base is set
    mx = 64 if tier == "thorough" else 20
    for tag, text, pre in [
        ("abs", ".link {B}\n.byte 1\n. = {B} + 1 + {S}\nL: .byte 2\n", 1),
        ("dot-rel", ".link {B}\n.byte 1\n. = . + {S}\nL: .byte 2\n", 1),
        ("label-rel", ".link {B}\nA: .byte 1, 1, 1\n. = A + 3 + {S}\nL: .byte 2\n", 3),
        ("after-dot-base", ". = {B}\n.byte 1\n. = . + {S}\nL: .byte 2\n", 1),
        ("target-defined-later", ".link {B}\n.byte 1\n. = tgt\nL: .byte 2\ntgt = {B} + 1 + {S}\n", 1),
        ("gap-defined-later", ".link {B}\nA: .byte 1, 1, 1\n. = A + gap\nL: .byte 2\ng0 = {S}\ngap = g0 + 3\n", 3),
    ]:
        obs.append(Ob(oid=f"skip/{tag}", harness=HS, params={"text": text, "pre_len": pre, "max_skip": mx}, vars={"B": "int", "S": "int"},
                      timeout=400, per_path=60, note=text.replace("\n", " / "), pre=f"every S <= {mx} (all negative S), 0 <= B < 60000"))
    for nm, expr, m in (("div4", "(. + 3) / 4 * 4", 4), ("shift8", "((. + 7) >> 3) << 3", 8), ("mod2", ". + . % 2", 2)):
        obs.append(Ob(oid=f"skip/round-up-in-repeat/{nm}", harness="pdpverif.props.c12:h_align_repeat", params={"n": 3, "expr": expr, "m": m}, vars={"B": "int"},
                      timeout=400, per_path=60, note=".link B / .repeat 3 { .byte 1 / . = " + expr + " } / L: .byte 2"))
    for n in (1, 2, 3):
        obs.append(Ob(oid=f"skip/in-repeat/{n}", harness="pdpverif.props.c12:h_skip_repeat", params={"n": n, "max_skip": 6}, vars={"B": "int", "S": "int"}, timeout=400, per_path=60,
                      note=".link B / .repeat n { .byte 1 / . = . + S } / L: .byte 2"))
    return obs
