"""C11  Symbol scoping and linking."""
import itertools
import os
import random

from ..common import require, BUILD
from ..obligations import Ob
from ..symasm import assemble, word_at, write_aux_file, render

P = "pdpverif.props.c11:"
AUX = os.path.join(BUILD, "aux", "c11")

META = {
    "claim": "every '.word name' binds to the definition the scoping rules select (own region for numeric local labels, own file first, then the "
             "unique exported definition) for ALL values of the same-named definitions (non-interference: distinct symbolic values per "
             "definition); references to invisible names fail with undefined-symbol and second visible definitions with duplicate-symbol",
    "technique": "CrossHair symbolic execution of multi-file / include programs (compile_label, compile_assignment, declare_external_symbol, "
                 "Symbol._resolve, .extern) with one symbolic value per definition; z3 decides each reference against ref.scoping for all values",
    "bounds": "1..3 linked files, include depth <= 2, <= 3 same-named definitions, all orders of definition/use/export inside a file for the "
              "systematic two-file family (quick: seeded 70 of 225), hand-written layouts for locals/includes/extern-all/duplicates; values: all "
              "integers with |v| < 2^16; base even",
    "outside": ["include depth 3", "more than three files", "symbol names differing only in case beyond the listed pairs"],
    "structure": "systematic family (def form x use position)^2 + 30 hand-written layouts + 4x4 matrix of export forms clashing across files",
    "stubs": ["included files are real files under /verif/build/aux/c11"],
}


def _scoping():
    from ref import scoping
    return scoping


def layout_vars(layout):
    vs = []
    for items in layout["files"] + layout.get("aux", []):
        for it in items:
            if it[0] == "def" and it[2] not in vs:
                vs.append(it[2])
    return vs


def h_scope(params, vals, ctx):
    sc = _scoping()
    layout = params["layout"]
    b = vals["B"]
    require(0 <= b < 60000 and b % 2 == 0)
    vs = layout_vars(layout)
    for v in vs:
        require(-65536 < vals[v] < 65536)
    order = ["B"] + vs
    sfx = "" if ctx.route == "inject" else f"_t{os.getpid()}"
    tag = params["tag"]
    aux_names = [f"{tag}_aux{k}{sfx}.mac" for k in range(len(layout.get("aux", [])))]
    for k, items in enumerate(layout.get("aux", [])):
        write_aux_file("c11", aux_names[k], render(sc.render_items(items, aux_names), order, vals, ctx.route))
    files = []
    for i, items in enumerate(layout["files"]):
        text = sc.render_items(items, aux_names)
        if i == 0:
            text = ".link {B}\n" + text
        files.append((os.path.join(AUX, f"{tag}_f{i}.mac"), text))
    exp = sc.resolve(layout)
    o = assemble(files, vals, route=ctx.route, order=order)
    ctx.observe_outcome(o)
    ctx.reach(o.status in ("ok", "failed"))
    if exp["errors"]:
        if o.status != "failed":
            return False
        return all(e in o.error_ids for e in exp["errors"]) if params.get("strict_ids", True) else True
    if o.status != "ok" or o.errors:
        return False
    if len(o.code) != exp["length"] or not (o.base == b):
        return False
    for off, (kind, ref) in exp["words"]:
        want = vals[ref] % 65536 if kind == "const" else b + ref
        if not (word_at(o.code, off) == want):
            return False
    return True


def systematic(rnd, tier, seed):
    """Two files, one name 'n': definition form x use position, in each file."""
    forms = ["none", "=", "==", "=+ext", "=+extall", "lab", "lab::"]
    uses = ["none", "before", "after"]
    out = []
    combos = list(itertools.product(forms, uses, forms, uses))
    if tier == "quick":
        rnd.shuffle(combos)
        combos = combos[:70]
    for fa, ua, fb, ub in combos:
        def mk(form, use, var):
            items = []
            if use == "before":
                items.append(("use", "n"))
            if form == "=":
                items.append(("def", "n", var, "="))
            elif form == "==":
                items.append(("def", "n", var, "=="))
            elif form == "=+ext":
                items += [("ext", "n"), ("def", "n", var, "=")] if var == "V1" else [("def", "n", var, "="), ("ext", "n")]
            elif form == "=+extall":
                items += [("def", "n", var, "="), ("ext", "all")] if var == "V1" else [("ext", "all"), ("def", "n", var, "=")]
            elif form == "lab":
                items += [("lab", "n", ":")]
            elif form == "lab::":
                items += [("lab", "n", "::")]
            if use == "after":
                items.append(("use", "n"))
            items.append(("use", "other" + var))  # a second, file-private name used only in its own file
            items.insert(0, ("def", "other" + var, "W" + var[-1], "="))
            return items
        out.append((f"sys/{fa}.{ua}-{fb}.{ub}", {"files": [mk(fa, ua, "V1"), mk(fb, ub, "V2")]}))
    return out


HAND = [
    ("local-reuse", {"files": [[("lab", "a", ":"), ("loc", "1"), ("useloc", "1"), ("lab", "b", ":"), ("useloc", "1"), ("loc", "1"), ("lab", "c", ":"), ("loc", "1"), ("useloc", "1")]]}),
    ("local-out-of-scope", {"files": [[("lab", "a", ":"), ("loc", "1"), ("lab", "b", ":"), ("useloc", "1")]]}),
    ("local-forward-backward", {"files": [[("useloc", "2"), ("loc", "2"), ("useloc", "2"), ("lab", "x", ":"), ("loc", "2"), ("useloc", "2")]]}),
    ("local-dup-in-scope", {"files": [[("lab", "a", ":"), ("loc", "1"), ("loc", "1"), ("useloc", "1")]]}),
    ("local-across-files", {"files": [[("loc", "1"), ("useloc", "1")], [("useloc", "1"), ("loc", "1")]]}),
    ("local-not-visible-in-other-file", {"files": [[("loc", "1"), ("useloc", "1")], [("useloc", "1")]]}),
    ("local-in-include", {"files": [[("lab", "a", ":"), ("loc", "1"), ("inc", 0), ("useloc", "1")]], "aux": [[("loc", "1"), ("useloc", "1")]]}),
    ("local-include-cannot-see-outer", {"files": [[("loc", "1"), ("inc", 0)]], "aux": [[("useloc", "1")]]}),
    ("private-reuse-3-files", {"files": [[("def", "n", "V1", "="), ("use", "n")], [("use", "n"), ("def", "n", "V2", "=")], [("def", "n", "V3", "="), ("use", "n")]]}),
    ("exported-used-before-definition-file", {"files": [[("use", "n")], [("use", "n")], [("def", "n", "V1", "==")]]}),
    ("own-definition-wins", {"files": [[("def", "n", "V1", "=="), ("use", "n")], [("def", "n", "V2", "="), ("use", "n")], [("use", "n")]]}),
    ("own-definition-wins-later", {"files": [[("use", "n"), ("def", "n", "V2", "=")], [("def", "n", "V1", "=="), ("use", "n")]]}),
    ("two-exports-conflict", {"files": [[("def", "n", "V1", "==")], [("def", "n", "V2", "==")]]}),
    ("two-exports-conflict-label-const", {"files": [[("lab", "n", "::")], [("def", "n", "V2", "=="), ("use", "n")]]}),
    ("duplicate-in-file", {"files": [[("def", "n", "V1", "="), ("def", "n", "V2", "="), ("use", "n")]]}),
    ("underscore-label-closes-scope", {"files": [[("lab", "a", ":"), ("loc", "1"), ("useloc", "1"), ("lab", "_b", ":"), ("useloc", "1")]]}),
    ("dollar-label-closes-scope", {"files": [[("lab", "a", ":"), ("loc", "1"), ("lab", "$c", ":"), ("loc", "1"), ("useloc", "1")]]}),
    ("underscore-label-visible-in-file", {"files": [[("lab", "z", ":"), ("lab", "_sub", ":"), ("lab", "b", ":"), ("use", "_sub"), ("lab", "c", ":"), ("use", "_sub")]]}),
    ("underscore-label-exported", {"files": [[("lab", "z", ":"), ("lab", "_x", "::"), ("use", "_x")], [("use", "_x")]]}),
    ("duplicate-same-text", {"files": [[("def", "n", "V1", "="), ("use", "n"), ("def", "n", "V1", "="), ("use", "n")]]}),
    ("duplicate-same-text-exported", {"files": [[("def", "n", "V1", "=="), ("def", "n", "V1", "==")], [("use", "n")]]}),
    ("duplicate-label-const", {"files": [[("lab", "n", ":"), ("def", "n", "V2", "=")]]}),
    ("case-insensitive-binding", {"files": [[("def", "Name", "V1", "=="), ("use", "NAME")], [("use", "name")]]}),
    ("case-insensitive-duplicate", {"files": [[("def", "Name", "V1", "="), ("def", "NAME", "V2", "=")]]}),
    ("invisible-private", {"files": [[("def", "n", "V1", "=")], [("use", "n")]]}),
    ("invisible-private-include", {"files": [[("inc", 0), ("use", "n")]], "aux": [[("def", "n", "V1", "="), ("use", "n")]]}),
    ("include-sees-exported-of-parent", {"files": [[("def", "n", "V1", "=="), ("inc", 0)]], "aux": [[("use", "n")]]}),
    ("include-sees-exported-defined-later", {"files": [[("inc", 0), ("def", "n", "V1", "==")]], "aux": [[("use", "n")]]}),
    ("include-does-not-see-private-of-parent", {"files": [[("def", "n", "V1", "="), ("inc", 0)]], "aux": [[("use", "n")]]}),
    ("include-exports-to-parent-and-sibling", {"files": [[("use", "n"), ("inc", 0)], [("use", "n")]], "aux": [[("def", "n", "V1", "==")]]}),
    ("include-own-private-wins", {"files": [[("def", "n", "V1", "=="), ("inc", 0), ("use", "n")]], "aux": [[("def", "n", "V2", "="), ("use", "n")]]}),
    ("include-twice-private", {"files": [[("inc", 0), ("inc", 0), ("def", "n", "V2", "="), ("use", "n")]], "aux": [[("def", "n", "V1", "="), ("use", "n")]]}),
    ("include-twice-exported-conflict", {"files": [[("inc", 0), ("inc", 0)]], "aux": [[("def", "n", "V1", "==")]]}),
    ("include-depth-2", {"files": [[("inc", 0), ("use", "deep")]], "aux": [[("inc", 1), ("use", "deep"), ("def", "p", "V2", "="), ("use", "p")], [("def", "deep", "V1", "=="), ("def", "p", "V3", "="), ("use", "p")]]}),
    ("extern-before-definition", {"files": [[("ext", "n"), ("use", "n"), ("def", "n", "V1", "=")], [("use", "n")]]}),
    ("extern-all-later-definitions", {"files": [[("ext", "all"), ("def", "a", "V1", "="), ("lab", "b", ":")], [("use", "a"), ("use", "b")]]}),
    ("extern-all-earlier-definitions", {"files": [[("def", "a", "V1", "="), ("lab", "b", ":"), ("ext", "all")], [("use", "a"), ("use", "b")]]}),
    ("extern-undefined-name", {"files": [[("ext", "ghost")], [("use", "ghost")]]}),
    ("extern-label-address", {"files": [[("use", "far"), ("use", "far")], [("use", "far"), ("lab", "far", "::"), ("use", "far")]]}),
]


def many_scopes(reuse):
    """Scope 1 defines 12$ (and uses it); after ten ordinary labels scope 11 refers to 2$: with correct scoping that is
    an undefined local (or, with ``reuse``, its own 2$)."""
    items = [("loc", "12"), ("useloc", "12")]
    for i in range(10):
        items += [("lab", f"g{i}", ":"), ("loc", "1"), ("useloc", "1")]
    if reuse:
        items += [("loc", "2"), ("useloc", "2")]
    else:
        items += [("useloc", "2")]
    items += [("lab", "tail", ":"), ("loc", "12"), ("useloc", "12"), ("loc", "2"), ("useloc", "2")]
    return {"files": [items]}


HAND += [
    # every export form against every other, the second export made in a later file: always a duplicate, never a silent binding
    *[(f"two-exports/{na}-vs-{nb}", {"files": [fa, fb + [("use", "n")], [("use", "n")]]})
      for na, fa in (("const", [("def", "n", "V1", "==")]), ("label", [("lab", "n", "::")]), ("extern", [("ext", "n"), ("def", "n", "V1", "=")]),
                     ("def-then-extern-all", [("def", "n", "V1", "="), ("ext", "all")]))
      for nb, fb in (("def-then-extern-all", [("def", "n", "V2", "="), ("ext", "all")]), ("extern-all-then-def", [("ext", "all"), ("def", "n", "V2", "=")]),
                     ("def-then-extern", [("def", "n", "V2", "="), ("ext", "n")]), ("label-then-extern-all", [("lab", "n", ":"), ("ext", "all")]))],
    ("many-scopes-dangling", many_scopes(False)),
    ("many-scopes-reuse", many_scopes(True)),
    ("many-scopes-in-second-file", {"files": [many_scopes(True)["files"][0], many_scopes(False)["files"][0][:6] + [("useloc", "12")]]}),
    ("extern-all-then-include-then-def", {"files": [[("ext", "all"), ("inc", 0), ("def", "x", "V1", "=")], [("use", "x"), ("use", "inner")]],
                                          "aux": [[("def", "inner", "V2", "=="), ("def", "priv", "V3", "="), ("use", "priv")]]}),
    ("extern-all-in-include-does-not-leak", {"files": [[("inc", 0), ("def", "y", "V1", "="), ("use", "y")], [("use", "y")]],
                                             "aux": [[("ext", "all"), ("def", "z", "V2", "=")]]}),
    ("extern-all-in-include-private-outside", {"files": [[("inc", 0), ("def", "y", "V1", "="), ("use", "y"), ("use", "z")], [("def", "y", "V3", "=="), ("use", "y"), ("use", "z")]],
                                               "aux": [[("ext", "all"), ("def", "z", "V2", "=")]]}),
    ("extern-then-included-export-then-def", {"files": [[("ext", "a"), ("inc", 0), ("def", "a", "V1", "=")], [("use", "a")]], "aux": [[("def", "a", "V2", "==")]]}),
    ("extern-then-included-label-export-then-def", {"files": [[("ext", "a"), ("inc", 0), ("def", "a", "V1", "="), ("use", "a")]], "aux": [[("lab", "a", "::"), ("use", "a")]]}),
    ("extern-then-included-extern-all", {"files": [[("ext", "a"), ("inc", 0), ("def", "a", "V1", "=")]], "aux": [[("ext", "all"), ("def", "a", "V2", "=")]]}),
]


# Programs whose constants are still pending where they are written (they mention labels further down): each is evaluated in the
# scope / file where it was WRITTEN, whenever that happens.  [files], [(file index, byte offset, [const, coefV1, coefV2])]
PENDING = {
    "const-over-locals": ([".link {B}\ng1: nop\nlen = 2$ - 1$\n1$: .word {V1}\n.word 0\n2$: .word len\ng2: nop\n1$: .word 1, 2, 3\n2$: .word len, 2$ - 1$\n"],
                          [(0, 6, [4, 0, 0]), (0, 16, [4, 0, 0]), (0, 18, [6, 0, 0])]),
    "const-over-locals-used-late": ([".link {B}\ng1: nop\nlen = 2$ - 1$\n1$: .word {V1}\n2$: nop\ng2: nop\n1$: .word 1, 2, 3\n2$: .word len\n"],
                                    [(0, 14, [2, 0, 0])]),
    "same-private-name-pending/linked": ([".link {B}\nn = enda - .\ny == n + {V1}\n.word y\nenda:\n", "n = endb - .\n.word y - n, n\n.blkb 4\nendb:\n"],
                                         [(0, 0, [2, 1, 0]), (1, 2, [2 - 8, 1, 0]), (1, 4, [8, 0, 0])]),
    "same-private-name-pending/linked-reversed": (["n = endb - .\n.word y - n, n\n.blkb 4\nendb:\n", "n = enda - .\ny == n + {V1}\n.word y\nenda:\n.link {B}\n"],
                                                  [(0, 0, [2 - 8, 1, 0]), (0, 2, [8, 0, 0]), (1, 8, [2, 1, 0])]),
    "same-text-two-scopes": ([".link {B}\ng1: nop\n1$: .word {V1}\nhere1 = . - 1$\n.word here1\ng2: nop\n1$: .word 1, 2\nhere2 = . - 1$\n.word here2\n"],
                             [(0, 4, [2, 0, 0]), (0, 12, [4, 0, 0])]),
}


def h_repeat_include_scopes(params, vals, ctx):
    """Local scopes opened by files that are included from a '.repeat' body stay private: a scope after the loop neither sees
    their local labels nor clashes with them."""
    b = vals["B"]
    require(0 <= b < 60000 and b % 2 == 0)
    require(-1000 < vals["V1"] < 1000)
    write_aux_file("c11", "rep_inc.mac", "1: .word 7\nnop\n2: nop\n")
    own = params["own_label"]
    text = (".link {B}\na: nop\n.repeat 2 { .include \"rep_inc.mac\" }\nb: .word {V1}\nc: nop\n" + ("1: nop\n" if own else "") + "br 1\n2: nop\nd: br 2\n")
    o = assemble([(os.path.join(AUX, "rep_main.mac"), text)], vals, route=ctx.route, order=["B", "V1"])
    ctx.observe_outcome(o)
    ctx.reach(o.status == "failed")
    # scope c: 'br 1' finds a 1: only if it has its own; scope d has no 2: -- the labels of the included copies are invisible
    undefined = len([e for e in o.error_ids if e == "undefined-symbol"])
    return o.status == "failed" and undefined == (1 if own else 2) and "duplicate-symbol" not in o.error_ids


def h_pending(params, vals, ctx):
    files_t, probes = PENDING[params["name"]]
    b = vals["B"]
    require(0 <= b < 60000 and b % 2 == 0)
    require(-1000 < vals["V1"] < 1000)
    files = [(f"/w/p{i}.mac", t) for i, t in enumerate(files_t)]
    o = assemble(files, vals, route=ctx.route, order=["B", "V1"])
    ctx.observe_outcome(o)
    ctx.reach(o.status == "ok")
    if o.status != "ok" or o.errors:
        return False
    for fi, off, (c0, c1, _) in probes:
        want = (c0 + c1 * vals["V1"]) % 65536
        if not (word_at(o.code, off) == want):
            return False
    return True


def obligations(tier, seed):
    rnd = random.Random(1100 + seed)
    obs = []
    layouts = [(f"hand/{n}", l) for n, l in HAND] + systematic(rnd, tier, seed)
    for k, (name, layout) in enumerate(layouts):
        vs = layout_vars(layout)
        obs.append(Ob(oid=name, harness=P + "h_scope", params={"layout": layout, "tag": f"L{k}"}, vars={"B": "int", **{v: "int" for v in vs}},
                      timeout=300, per_path=90, note=str(layout)[:300]))
    for own in (False, True):
        obs.append(Ob(oid=f"repeat-include-scopes/{'own-label' if own else 'no-label'}", harness=P + "h_repeat_include_scopes", params={"own_label": own},
                      vars={"B": "int", "V1": "int"}, timeout=300, per_path=90))
    for name in PENDING:
        obs.append(Ob(oid=f"pending/{name}", harness=P + "h_pending", params={"name": name}, vars={"B": "int", "V1": "int"}, timeout=300, per_path=90,
                      note=" || ".join(t.replace("\n", " / ") for t in PENDING[name][0])[:300]))
    return obs
