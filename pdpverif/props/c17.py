"""C17  Diagnostics point at the culprit."""
import io
import os
import re
import sys

from ..common import require, concretize, notrace, BUILD
from ..obligations import Ob
from ..symasm import assemble, write_aux_file, render
try:
    from .. import shims  # traced world only (needs CrossHair)
except Exception:  # concrete replay world
    class shims:  # noqa: N801
        FORMAT_SHIM_ENABLED = [True]

P = "pdpverif.props.c17:"
AUX = os.path.join(BUILD, "aux", "c17")

META = {
    "claim": "Context.__repr__ prints file:line:col with line = newlines before the position + 1 and col = characters since the last newline, a "
             "tab counting as four columns, for every text and position; for value-dependent faults planted behind enumerated prefixes in the main "
             "file, a second linked file and an included file, every reported span names the file that holds the text, satisfies "
             "0 <= start <= end <= len(text) and the first span starts at the planted token, for ALL values that trigger the fault; the "
             "bare report format prints exactly that position",
    "technique": "CrossHair symbolic execution of Context.__repr__ on a symbolic string and position, and of the lazily evaluated diagnostics of "
                 "the real compile with symbolic fault values; z3 decides the position arithmetic / span invariants for all values",
    "bounds": "Context.__repr__: every string of <= 3 characters (quick) / <= 4 (thorough) and every position; faults: 26 value-dependent "
              "templates x 7 prefixes (0..2 newlines, tabs, a comment, non-ASCII text) x 3 file placements (quick: seeded subset of 150)",
    "outside": ["'every planting position' is an enumerated set of prefixes (the text is concrete)", "GraphicalHandler's rendering (covered "
                "for crashes by C07/C08, not for geometry)"],
    "structure": "fault template (31) x prefix x placement (quick: every fault in every placement + seeded rest); the faulty statement as last line with / without final newline; two files with one spelling in different directories",
    "stubs": ["included files are real files under /verif/build/aux/c17"],
}


def ref_position(code, pos):
    """Independent line/column counter: tab = 4 columns."""
    line, col = 1, 1
    for ch in code[:pos]:
        if ch == "\n":
            line += 1
            col = 1
        elif ch == "\t":
            col += 4
        else:
            col += 1
    return line, col


def h_context(params, vals, ctx):
    from pdpy11.context import Context
    code, pos = vals["S_1"], vals["POS"]
    require(len(code) <= params.get("maxlen", 3))
    require(0 <= pos <= len(code))
    if params.get("alphabet"):
        # small alphabet, realised first: stays decidable even if the code under test uses string methods that
        # CrossHair can only handle by realisation
        for ch in code:
            require(ch in params["alphabet"])
        code = concretize(code)
        pos = concretize(pos)
    old = shims.FORMAT_SHIM_ENABLED[0]
    shims.FORMAT_SHIM_ENABLED[0] = False  # number formatting is the subject here
    try:
        c = Context("f.mac", code)
        c.pos = pos
        text = repr(c)
    finally:
        shims.FORMAT_SHIM_ENABLED[0] = old
    ctx.observe(text)
    line, col = 1, 1
    i = 0
    while i < pos:
        ch = code[i]
        if ch == "\n":
            line += 1
            col = 1
        elif ch == "\t":
            col += 4
        else:
            col += 1
        i += 1
    return text == "f.mac:" + str(line) + ":" + str(col)


# (id, statement template, trigger(v), offset of the culprit token inside the statement, bound)
def _faults():
    return [
        ("byte", ".byte {V}", lambda v: not (-256 < v < 256), 6, None),
        ("word", ".word {V}", lambda v: not (-65536 < v < 65536), 6, None),
        ("word-2nd", ".word 1, {V}", lambda v: not (-65536 < v < 65536), 9, None),
        ("dword", ".dword {V}", lambda v: not (-2 ** 32 < v < 2 ** 32), 7, None),
        ("imm", "mov #{V}, r0", lambda v: not (-65536 < v < 65536), 5, None),
        ("index", "mov r1, {V}(r2)", lambda v: not (-65536 < v < 65536), 8, None),
        ("index-sum", "mov r1, 2+{V}(r2)", lambda v: not (-65536 < v + 2 < 65536), 8, None),
        ("index-sum-deferred", "clr @2+{V}(r3)", lambda v: not (-65536 < v + 2 < 65536), 5, None),
        ("index-product-src", "mov 2*{V}(r2), r0", lambda v: not (-65536 < v * 2 < 65536), 4, None),
        ("byte-product-sum", ".byte 2*3+{V}", lambda v: not (-256 < 6 + v < 256), 6, None),
        ("byte-sum3", ".byte 1+{V}+1", lambda v: not (-256 < v + 2 < 256), 6, None),
        ("word-quotient", ".word 6*{V}/0", lambda v: True, 6, None),
        ("imm-sum3", "mov #1+2+{V}, r0", lambda v: not (-65536 < v + 3 < 65536), 5, None),
        ("dangling-operator", ".word ({V} * )", lambda v: True, ("find", ")", 0), None),
        ("dangling-operator-blanks", ".word <{V} /   >", lambda v: True, ("find", ">", 0), None),
        ("abs", "clr @#{V}", lambda v: not (-65536 < v < 65536), 6, None),
        ("blkb", ".blkb {V}", lambda v: not (0 <= v < 65536), 6, ("le", 6)),
        ("branch", "br .+{V}", lambda v: (v - 2) % 2 == 1 or not (-256 <= v - 2 <= 254), 0, None),
        ("sob", "sob r1, .+{V}", lambda v: (v - 2) % 2 == 1 or not (-126 <= v - 2 <= 0), 0, None),
        ("div", "qq = 10 / {V}", lambda v: v == 0, 5, None),
        ("mod", "qq = 10 % {V}", lambda v: v == 0, 5, None),
        ("shl", "qq = 1 << {V}", lambda v: v < 0, 5, ("window", -8, 8)),
        ("emt", "emt {V}", lambda v: not (-256 < v < 256), 0, None),
        ("spl", "spl {V}", lambda v: not (0 <= v < 8), 0, None),
        ("ascii-byte", ".ascii \"a\" <{V}>", lambda v: not (0 <= v < 256), 12, None),
        ("rad50-code", ".rad50 <{V}>", lambda v: not (0 <= v < 40), None, None),
        ("reg-index", "mov %{V}, r0", lambda v: not (0 <= v < 8), 5, None),
        ("repeat-count", ".repeat {V} { nop }", lambda v: v < 0, 8, ("le", 3)),
        ("align", ".align {V}", lambda v: v <= 0, None, ("le", 6)),
        ("undefined", "mov #nosuch + {V}, r0", lambda v: True, 5, None),
        ("register-value", ".word r3 + {V}", lambda v: True, 6, None),
        ("bad-octal", ".word 18 + {V}", lambda v: True, 6, None),
        ("operand-count", "mov #{V}", lambda v: True, 0, None),
        ("unknown-insn", "frob {V}", lambda v: True, 0, None),
        ("user-error", ".error stop {V}", lambda v: True, 0, None),
        ("dangling-comma", "W6: 1, {V} , ]", lambda v: True, ("find", " , ]", 1), None),
        ("dangling-comma-tab", "W6: 1, {V}\t, ]", lambda v: True, ("find", "\t, ]", 1), None),
    ]


# faults whose culprit token is the numeric literal itself: written as text, a negative value reads '-^D5' and the
# Number token starts after the sign (harness artefact of the two routes, not a pdpy11 property)
LITERAL_CULPRIT = ['abs', 'ascii-byte', 'blkb', 'byte', 'dword', 'imm', 'index', 'reg-index', 'repeat-count', 'word', 'word-2nd']


def culprit_offset(fault, culprit, v, route, stmt_text=None):
    if culprit is None:
        return None
    if isinstance(culprit, (tuple, list)):
        # ("find", needle, delta): position of a marker inside the rendered statement
        return stmt_text.index(culprit[1]) + culprit[2]
    if fault in LITERAL_CULPRIT and route == "text" and v < 0:
        return culprit + 1
    return culprit


PREFIXES = ["", "\n", "\n\n", "\tnop\n\t", "nop ; comment with (brackets)\n", ".ascii \"ЖЖ\"\n.even\n", "\t\t"]


def h_diag(params, vals, ctx):
    faults = {f[0]: f for f in _faults()}
    _, stmt, trigger, culprit, bound = faults[params["fault"]]
    v = vals["V"]
    if bound is not None:
        if bound[0] == "le":
            require(v <= bound[1])
        elif bound[0] == "ge":
            require(v >= bound[1])
        else:
            require(bound[1] <= v <= bound[2])
    require(trigger(v))
    prefix, placement = params["prefix"], params["placement"]
    body = prefix + stmt + params.get("suffix", "\nnop\n")
    order = ["V"]
    sfx = "" if ctx.route == "inject" else f"_t{os.getpid()}"
    tag = params["tag"]
    main = os.path.join(AUX, f"{tag}_main.mac")
    if placement == "main":
        files = [(main, body)]
        where = main
    elif placement == "second":
        second = os.path.join(AUX, f"{tag}_second.mac")
        files = [(main, "first: nop\n"), (second, body)]
        where = second
    else:
        inc = f"{tag}_inc{sfx}.mac"
        where = os.path.join(AUX, inc)
        write_aux_file("c17", inc, render(body, order, vals, ctx.route))
        files = [(main, f"nop\n.include \"{inc}\"\nnop\n")]
    text_here = render(body, order, vals, ctx.route)
    o = assemble(files, vals, route=ctx.route, order=order, charset="utf-8")
    ctx.observe_outcome(o)
    ctx.reach(o.status == "failed")
    if o.status != "failed":
        return False
    errs = [d for d in o.diags if d[0] != "warning"]
    if not errs:
        return False
    n = len(text_here)
    stmt_at = len(prefix)
    for sev, ident, spans in o.diags:
        for sp in spans:
            if sp is None:
                return False
            f1, p1, f2, p2 = sp
            if f1 != f2:
                return False
            if placement == "included" and f1 == main:
                # the '.include' line itself may be blamed for an io problem, never for a fault inside the file
                return False
            if f1 != where:
                return False
            if not (0 <= p1 <= p2 <= n):
                return False
    first = errs[0][2][0]
    culprit = culprit_offset(params["fault"], culprit, v, ctx.route, render(stmt, order, vals, ctx.route))
    if culprit is not None:
        if not (first[1] == stmt_at + culprit):
            return False
    else:
        if not (stmt_at <= first[1] <= stmt_at + len(stmt)):
            return False
    return True


def h_crossfile(params, vals, ctx):
    """Diagnostics whose spans lie in two different files: each span names the file that holds its text, in the order
    culprit first, 'previously declared here' second -- whatever the file names are."""
    v = vals["V"]
    require(-256 < v < 256)
    first_name, second_name = params["names"]
    kind = params["kind"]
    f1 = os.path.join(AUX, first_name)
    f2 = os.path.join(AUX, second_name)
    if kind == "duplicate-export":
        t1 = "nop\nshared:: .byte {V}\n.even\n"
        t2 = "\tnop\n  shared:: nop\n"
        culprit = (f2, t2.index("shared"))
        other = (f1, t1.index("shared"))
        ident = "duplicate-symbol"
    elif kind == "duplicate-extern":
        t1 = ".byte {V}\n.even\ndup == 5\n"
        t2 = "nop\n.extern dup\ndup = 6\n"
        culprit = (f2, t2.index("dup"))
        other = (f1, t1.index("dup"))
        ident = "duplicate-symbol"
    else:  # sob to a label of the other file that lies further on: second span is the label definition
        t1 = ".byte {V}\n.even\nsob r1, fwd\n"
        t2 = "nop\nfwd:: nop\n"
        culprit = (f1, t1.index("sob"))
        other = (f2, t2.index("fwd"))
        ident = "branch-out-of-bounds"
    o = assemble([(f1, t1), (f2, t2)], vals, route=ctx.route, order=["V"])
    ctx.observe_outcome(o)
    ctx.reach(o.status == "failed")
    if o.status != "failed":
        return False
    hits = [d for d in o.diags if d[1] == ident]
    if not hits:
        return False
    spans = hits[0][2]
    if len(spans) != 2 or spans[0] is None or spans[1] is None:
        return False
    if ctx.route == "text" and v < 0:
        pass  # '{V}' stands before both culprits only in file 1 line 1: offsets after it shift with the literal's length
    lit_shift = len(render("{V}", ["V"], vals, ctx.route)) - len("{V}")
    def pos_in(f, p):
        return p + (lit_shift if f == f1 and p > t1.index("{V}") else 0)
    ok = spans[0][0] == culprit[0] and spans[0][2] == culprit[0] and spans[0][1] == pos_in(*culprit)
    ok = ok and spans[1][0] == other[0] and spans[1][2] == other[0] and spans[1][1] == pos_in(*other)
    return ok


def h_same_spelling(params, vals, ctx):
    """Two different files that are spelled identically where they are included (each resolved against its includer's directory):
    a fault planted in the second one is reported against the second one."""
    v = vals["V"]
    require(not (-256 < v < 256))
    sfx = "" if ctx.route == "inject" else f"_t{os.getpid()}"
    d1, d2 = f"ss{sfx}/video", f"ss{sfx}/sound"
    good = "nop\n.byte 1, 2\n"
    bad = "nop\n.byte 1, {V}\n"
    order = ["V"]
    write_aux_file("c17/" + d1, "defs.mac", good)
    bad_path = write_aux_file("c17/" + d2, "defs.mac", render(bad, order, vals, ctx.route))
    if params["layout"] == "nested":
        write_aux_file("c17/" + d1, "part.mac", '.include "defs.mac"\n')
        write_aux_file("c17/" + d2, "part.mac", 'nop\n.include "defs.mac"\n')
        files = [(os.path.join(AUX, f"ss{sfx}", "main.mac"), '.include "video/part.mac"\n.include "sound/part.mac"\n')]
    else:
        files = [(os.path.join(AUX, d1, "a.mac"), '.include "defs.mac"\n'), (os.path.join(AUX, d2, "b.mac"), 'nop\n.include "defs.mac"\n')]
    o = assemble(files, vals, route=ctx.route, order=order)
    ctx.observe_outcome(o)
    ctx.reach(o.status == "failed")
    if o.status != "failed":
        return False
    errs = [d for d in o.diags if d[0] != "warning"]
    if len(errs) != 1 or errs[0][1] != "value-out-of-bounds":
        return False
    sp = errs[0][2][0]
    want = bad.index("{V}") + (1 if (ctx.route == "text" and v < 0) else 0)
    return sp[0] == bad_path and sp[2] == bad_path and sp[1] == want


def h_bare(params, vals, ctx):
    """--report-format=bare prints file:line:col of the first span = the reference position of the planted token."""
    from pdpy11 import reports
    faults = {f[0]: f for f in _faults()}
    _, stmt, trigger, culprit, bound = faults[params["fault"]]
    v = vals["V"]
    if bound is not None:
        if bound[0] == "le":
            require(v <= bound[1])
        elif bound[0] == "ge":
            require(v >= bound[1])
        else:
            require(bound[1] <= v <= bound[2])
    require(trigger(v))
    prefix = params["prefix"]
    body = prefix + stmt + "\nnop\n"
    out = io.StringIO()
    old = sys.stdout
    sys.stdout = out
    old_shim = shims.FORMAT_SHIM_ENABLED[0]
    try:
        o = assemble([("/w/prog.mac", body)], vals, route=ctx.route, handler=reports.BareHandler(), charset="utf-8")
    finally:
        sys.stdout = old
        shims.FORMAT_SHIM_ENABLED[0] = old_shim
    ctx.observe(o.status)
    ctx.reach(o.status == "failed")
    if o.status != "failed":
        return False
    with notrace():
        printed = out.getvalue()
        first = printed.split("\n")[0]
        m = re.match(r"^/w/prog\.mac:(\d+):(\d+): Error: ", first)
        if not m:
            return False
        text_here = render(body, ["V"], {"V": 0}, "text")  # the prefix up to the culprit does not depend on V
        line, col = ref_position(text_here, len(prefix) + (culprit_offset(params["fault"], culprit, v, ctx.route, render(stmt, ["V"], {"V": 0}, "text")) or 0))
        return (int(m.group(1)), int(m.group(2))) == (line, col)


def obligations(tier, seed):
    import random
    rnd = random.Random(1700 + seed)
    obs = [Ob(oid="context-repr", harness=P + "h_context", params={"maxlen": 4 if tier == "thorough" else 3}, vars={"S_1": "str", "POS": "int"},
              timeout=3000 if tier == "thorough" else 900, per_path=120, pre="every string up to the length bound and every position")]
    obs.append(Ob(oid="context-repr/alphabet", harness=P + "h_context", params={"maxlen": 3, "alphabet": "a\t\n \u0416"}, vars={"S_1": "str", "POS": "int"},
                  timeout=1500, per_path=120, pre="every string of <= 3 characters over {a, TAB, LF, blank, Cyrillic Zhe} and every position (realised)"))
    combos = [(f[0], i, pl) for f in _faults() for i in range(len(PREFIXES)) for pl in ("main", "second", "included")]
    if tier == "quick":
        # every fault in every placement at least once (seeded prefix), the rest of the budget at random
        must = [(f[0], rnd.randrange(len(PREFIXES)), pl) for f in _faults() for pl in ("main", "second", "included")]
        rnd.shuffle(combos)
        combos = sorted(set(must + combos[:70]))
    for k, (fid, pi, pl) in enumerate(combos):
        obs.append(Ob(oid=f"span/{fid}/p{pi}/{pl}", harness=P + "h_diag", params={"fault": fid, "prefix": PREFIXES[pi], "placement": pl, "tag": f"T{k}"},
                      vars={"V": "int"}, timeout=300, per_path=90, note=(PREFIXES[pi] + dict((f[0], f[1]) for f in _faults())[fid]).replace("\n", " / ")))
    # the faulty statement is the last line of its file, with and without a final newline
    for k, f in enumerate(_faults()):
        for j, suffix in enumerate(("", "\n")):
            pl = ("main", "second", "included")[(k + j) % 3] if tier == "quick" else None
            for place in ([pl] if pl else ["main", "second", "included"]):
                obs.append(Ob(oid=f"span-eof/{f[0]}/{'no-newline' if suffix == '' else 'newline'}/{place}", harness=P + "h_diag",
                              params={"fault": f[0], "prefix": "nop\n", "placement": place, "tag": f"E{k}{j}{place[0]}", "suffix": suffix},
                              vars={"V": "int"}, timeout=300, per_path=90))
    for layout in ("nested", "linked"):
        obs.append(Ob(oid=f"crossfile/same-spelling-includes/{layout}", harness=P + "h_same_spelling", params={"layout": layout}, vars={"V": "int"}, timeout=300))
    for kind in ("duplicate-export", "duplicate-extern", "sob-forward"):
        for names in (("a_first.mac", "z_second.mac"), ("z_first.mac", "a_second.mac"), ("m.mac", "lib.mac")):
            obs.append(Ob(oid=f"crossfile/{kind}/{names[0]}+{names[1]}", harness=P + "h_crossfile", params={"kind": kind, "names": list(names)},
                          vars={"V": "int"}, timeout=300))
    for f in _faults():
        if f[3] is None or isinstance(f[3], tuple):
            continue
        for pi in ([0, 3, 5] if tier == "quick" else range(len(PREFIXES))):
            obs.append(Ob(oid=f"bare/{f[0]}/p{pi}", harness=P + "h_bare", params={"fault": f[0], "prefix": PREFIXES[pi]}, vars={"V": "int"}, timeout=300, per_path=90))
    return obs
