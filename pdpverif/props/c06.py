"""C06  Data directives store exactly the stated value or refuse."""
import random

from ..common import require
from ..obligations import Ob
from ..symasm import assemble

META = {
    "claim": ".byte/.word/.dword/implicit word lists accept iff every |v| < 2^n and word data sits on an even address, and then emit v mod 2^n "
             "little-endian (.dword high word first); .blkb/.blkw/.even/.odd/.align emit exactly the stated/needed zero fill; .ascii/.asciz "
             "emit the charset encoding; out-of-range values, negative counts, unencodable characters fail with the matching diagnostic",
    "technique": "CrossHair symbolic execution of metacommands.* / get_as_int / compile_word_list; z3 decides accept/reject and the emitted "
                 "bytes for all integer values and bases",
    "bounds": "values: ALL integers; arity 0..4; link base 0..65535 (parity and alignment residue symbolic); .blkb/.blkw counts: all integers "
              "<= 24 and >= 65536 (quick) plus 65530..65535 (thorough); .align modulus 1..64; strings: one symbolic character between "
              "concrete neighbours (utf-8: two), code-point windows per charset listed in the obligation",
    "outside": ["arity 5..8", "strings with more than two symbolic characters", "escape forms are lexed from concrete text: covered by the "
                "concrete table inside obligation 'ascii/escapes' only", "block counts 25..65529 (length is realised by CrossHair)"],
    "structure": "each directive x arity x address parity; .align per modulus; charsets utf-8, latin-1, koi8-r, cp866, bk",
    "stubs": [],
}

H = "pdpverif.props.c06:h_values"
HB = "pdpverif.props.c06:h_block"
HP = "pdpverif.props.c06:h_pad"
HS = "pdpverif.props.c06:h_string"
HR = "pdpverif.props.c06:h_rawbyte"
HE = "pdpverif.props.c06:h_escapes"

DIRS = {".byte": (8, 1), ".word": (16, 2), ".dword": (32, 4), "implicit": (16, 2), ".db": (8, 1), ".dw": (16, 2)}


def le_bytes(v, nbytes, dword=False):
    """List of expected byte values (arithmetic only)."""
    if dword:
        m = v % 2 ** 32
        hi, lo = m // 65536, m % 65536
        return [hi % 256, hi // 256, lo % 256, lo // 256]
    m = v % 2 ** (8 * nbytes)
    return [m // 256 ** i % 256 for i in range(nbytes)]


def h_values(params, vals, ctx):
    d, k, odd = params["dir"], params["arity"], params["odd_prefix"]
    bits, size = DIRS[d]
    names = [f"V{i + 1}" for i in range(k)]
    b = vals["B"]
    require(0 <= b < 65536)
    ops = ", ".join("{%s}" % n for n in names)
    # an implicit word list must not start its line with '^D..'/'-': expressions continue across newlines
    # in this grammar ('.link 0 <newline> ^D5' is '.link 0 ^ D5'), so a label precedes it
    stmt = ("W: " + ops if d == "implicit" else (d + " " + ops).rstrip())
    text = ".link {B}\n" + (".byte 1\n" if odd else "") + stmt + "\n"
    if params.get("late_link"):
        # base unknown while the directive is compiled: its announced size, not its content, advances the location counter
        text = (".byte 1\n" if odd else "") + stmt + "\nAFTER: .byte 5\n.link {B}\n"
    o = assemble([("a.mac", text)], vals, route=ctx.route)
    ctx.observe_outcome(o)
    addr = b + (1 if odd else 0)
    in_range = True
    for n in names:
        in_range = in_range and (-2 ** bits < vals[n] < 2 ** bits)
    misaligned = size > 1 and addr % 2 == 1
    accept = in_range and not misaligned
    ctx.reach(accept)
    if not accept:
        if o.status != "failed":
            return False
        ids = o.error_ids
        # at least one of the applicable diagnostics (a refused value aborts the directive before the
        # address check runs), and none that does not apply
        want = (["value-out-of-bounds"] if not in_range else []) + (["odd-address"] if misaligned else [])
        if not any(w in ids for w in want):
            return False
        return all(i in want for i in ids)
    if o.status != "ok" or o.errors:
        return False
    exp = [1] if odd else []
    if k == 0:
        exp += [0] * size
    for n in names:
        exp += le_bytes(vals[n], size, dword=(d == ".dword"))
    if params.get("late_link"):
        exp += [5]
        if not (o.symbol("AFTER") == b + len(exp) - 1):
            return False
    code = o.code
    if len(code) != len(exp):
        return False
    for i, e in enumerate(exp):
        if not (code[i] == e):
            return False
    return o.base == b


def h_block(params, vals, ctx):
    d = params["dir"]
    unit = 1 if d == ".blkb" else 2
    n = vals["N"]
    b = vals["B"]
    require(0 <= b < 65536)
    if unit == 2:
        require(b % 2 == 0)
    lo_max = params.get("small_max", 24)
    if params.get("window"):
        require(params["window"][0] <= n <= params["window"][1])
    else:
        require(n <= lo_max or n >= params.get("big_min", 65536))
    text = ".link {B}\n" + d + " {N}\n.byte 7\nL:\n"
    o = assemble([("a.mac", text)], vals, route=ctx.route)
    ctx.observe_outcome(o)
    accept = 0 <= n < 65536
    ctx.reach(accept)
    if not accept:
        return o.status == "failed" and "value-out-of-bounds" in o.error_ids
    if o.status != "ok" or o.errors:
        return False
    code = o.code
    if len(code) != unit * n + 1:
        return False
    if params.get("window"):
        # tens of thousands of bytes: the count is realised by now, so the fill is inspected outside the tracer
        from ..common import notrace
        with notrace():
            raw = bytes(code)
            fill_ok = raw.count(0) == len(raw) - 1 and raw[-1] == 7
        return fill_ok and o.symbol("L") == b + unit * n + 1
    for i in range(len(code) - 1):
        if code[i] != 0:
            return False
    return code[len(code) - 1] == 7 and o.symbol("L") == b + unit * n + 1


def h_pad(params, vals, ctx):
    kind = params["kind"]
    b = vals["B"]
    require(0 <= b < 65536)
    if kind == "align":
        m = vals["M"] if params.get("sym_m") else params["m"]
        if params.get("sym_m"):
            require(params["m_lo"] <= m <= params["m_hi"])
        stmt = ".align {M}" if params.get("sym_m") else f".align {m}."
    else:
        stmt = "." + kind
    text = ".link {B}\n.byte 1\n" + stmt + "\n.byte 2\nL:\n"
    o = assemble([("a.mac", text)], vals, route=ctx.route)
    ctx.observe_outcome(o)
    addr = b + 1
    if kind == "even":
        pad, accept = addr % 2, True
    elif kind == "odd":
        pad, accept = (addr + 1) % 2, True
    else:
        accept = m > 0
        pad = (-addr) % m if accept else 0
    ctx.reach(accept or params.get("reach_reject"))
    if not accept:
        return o.status == "failed" and "value-out-of-bounds" in o.error_ids
    if o.status != "ok" or o.errors:
        return False
    code = o.code
    if len(code) != pad + 2:
        return False
    if code[0] != 1 or code[len(code) - 1] != 2:
        return False
    for i in range(1, len(code) - 1):
        if code[i] != 0:
            return False
    return o.symbol("L") == b + pad + 2


WINDOWS = {
    "utf-8": [(0, 0x100), (0x7C0, 0x840), (0xFFC0, 0x10040)],
    "latin-1": [(0, 0x180)],
    "koi8-r": [(0, 0x100), (0x400, 0x460), (0x2500, 0x25A0)],
    "cp866": [(0, 0x100), (0x400, 0x460), (0x2500, 0x25A0)],
    "bk": [(0, 0x100), (0x400, 0x460), (0x2190, 0x2194), (0x2500, 0x25A0), (0x2660, 0x2667)],
}


def in_windows(cp, windows):
    ok = False
    for lo, hi in windows:
        ok = ok or (lo <= cp < hi)
    return ok


def h_string(params, vals, ctx):
    cs, d = params["charset"], params["dir"]
    left, right = params.get("left", ""), params.get("right", "")
    n = params.get("nsym", 1)
    parts = [vals[f"S_{i + 1}"] for i in range(n)]
    for ch in parts:
        require(len(ch) == 1)
        cp = ord(ch)
        require(cp < 0xD800 or cp >= 0xE100)
        require(in_windows(cp, params.get("windows") or WINDOWS[cs]))
    if params.get("realise"):
        # table codecs (dict lookup by a symbolic key) fork once per table entry and per lookup; realising the
        # code point first gives one cheap path per value of the window (solver-enumerated)
        from ..common import concretize
        parts = [chr(concretize(ord(ch))) for ch in parts]
        vals = {**vals, **{f"S_{i + 1}": p for i, p in enumerate(parts)}}
    s = left
    for ch in parts:
        s = s + ch
    s = s + right
    text = d + ' "' + left + "".join("{S_%d}" % (i + 1) for i in range(n)) + right + '"\n'
    if params.get("after_charset"):
        # the charset is an input of one assembly: an earlier assembly of this process with another charset leaves no trace
        assemble([("e.mac", '.ascii "\u044f\u0416a"\n.asciz "b"\n')], {}, route=ctx.route, charset=params["after_charset"])
    o = assemble([("a.mac", text)], vals, route=ctx.route, charset=cs)
    ctx.observe_outcome(o)
    ctx.reach(o.status in ("ok", "failed"))
    if cs == "bk":
        # the decoding table is the specification of the charset; the codec's encode() is the code under test
        from pdpy11 import bk_encoding
        exp = b""
        for ch in s:
            hits = [i for i, entry in enumerate(bk_encoding.DECODING_TABLE) if ch in entry]
            if not hits:
                return o.status == "failed" and "invalid-character" in o.error_ids
            exp = exp + bytes([hits[0]])
    else:
        try:
            exp = s.encode(cs)
        except UnicodeEncodeError:
            return o.status == "failed" and "invalid-character" in o.error_ids
    if o.status != "ok" or o.errors:
        return False
    if d == ".asciz":
        exp = exp + b"\x00"
    return bytes(o.code) == exp if not hasattr(o.code, "__ch_realize__") else o.code == exp


def h_charlit_wide(params, vals, ctx):
    """A character literal stored by a directive wider than the literal: the value is the unsigned little-endian reading of the
    encoded bytes ('ab == a + 256*b), never sign-extended."""
    cs = params["charset"]
    ch = vals["S_1"]
    require(len(ch) == 1)
    cp = ord(ch)
    require(0x21 <= cp < 0x100 or 0x400 <= cp < 0x460 or 0x2500 <= cp < 0x2520)
    require(ch not in "\"\\/'")
    if cs == "bk":
        from ..common import concretize
        ch = chr(concretize(cp))
        vals = {**vals, "S_1": ch}
    text = '.dword "a{S_1}\n.dword \'{S_1}\nW = "a{S_1}\n.word W / 400\n'
    o = assemble([("a.mac", text)], vals, route=ctx.route, charset=cs)
    ctx.observe_outcome(o)
    ctx.reach(o.status in ("ok", "failed"))
    try:
        if cs == "bk":
            from pdpy11 import bk_encoding
            hits = [i for i, e in enumerate(bk_encoding.DECODING_TABLE) if ch in e]
            if not hits:
                raise UnicodeEncodeError("bk", ch, 0, 1, "not in table")
            enc = bytes([hits[0]])
        else:
            enc = ch.encode(cs)
    except UnicodeEncodeError:
        return o.status == "failed" and "invalid-character" in o.error_ids
    if len(enc) != 1:
        return True   # multi-byte encodings of one character: the two-character literal is a different matter (not asserted here)
    if o.status != "ok" or o.errors:
        return False
    c = enc[0]
    want = bytes([0, 0, 97, c, 0, 0, c, 0]) + bytes([(97 + 256 * c) // 256 % 256, (97 + 256 * c) // 65536])
    return bytes(o.code) == want if not hasattr(o.code, "__ch_realize__") else o.code == want


def h_rawbyte(params, vals, ctx):
    """<n> raw bytes between string chunks; optionally a symbolic (possibly multi-byte) character in front."""
    v = vals["V"]
    cs = params.get("charset", "bk")
    lead = "a"
    if params.get("symlead"):
        ch = vals["S_1"]
        require(len(ch) == 1)
        cp = ord(ch)
        require(cp < 0xD800 or cp >= 0xE100)
        require(in_windows(cp, [(0x20, 0x22), (0x23, 0x27), (0x28, 0x2F), (0x30, 0x5C), (0x5D, 0x100), (0x7C0, 0x840), (0xFFC0, 0x10040)]))
        lead = ch
    text = params["dir"] + (' "{S_1}" <{V}> "b"\n' if params.get("symlead") else ' "a" <{V}> "b"\n')
    o = assemble([("a.mac", text)], vals, route=ctx.route, charset=cs)
    ctx.observe_outcome(o)
    accept = 0 <= v < 256
    ctx.reach(accept)
    if not accept:
        return o.status == "failed" and "value-out-of-bounds" in o.error_ids
    if o.status != "ok" or o.errors:
        return False
    code = o.code
    head = lead.encode(cs)
    n = len(head)
    tail = 1 if params["dir"] == ".asciz" else 0
    if len(code) != n + 2 + tail:
        return False
    if tail and code[n + 2] != 0:
        return False
    for i in range(n):
        if code[i] != head[i]:
            return False
    return code[n] == v and code[n + 1] == 98


ESCAPES = [
    ('\\n', b"\n"), ('\\r', b"\r"), ('\\t', b"\t"), ('\\\\', b"\\"), ('\\"', b'"'), ("\\'", b"'"), ('\\/', b"/"),
    ('\\x00', b"\x00"), ('\\x41', b"A"), ('\\x7e', b"~"), ('\\N', b"\n"), ('\\X4a', b"J"), ('a\\\nb', b"ab"),
]


def h_escapes(params, vals, ctx):
    """Concrete side check: escape forms (lexed from concrete text) beside one symbolic raw byte."""
    v = vals["V"]
    require(0 <= v < 256)
    for esc, raw in ESCAPES:
        for quote in ('"', "/"):
            text = f".ascii {quote}x{esc}y{quote} <{{V}}>\n"
            o = assemble([("a.mac", text)], vals, route=ctx.route, charset="latin-1")
            ctx.observe_outcome(o)
            if o.status != "ok" or o.errors:
                return False
            exp = b"x" + raw + b"y"
            code = o.code
            if len(code) != len(exp) + 1:
                return False
            for i in range(len(exp)):
                if code[i] != exp[i]:
                    return False
            if code[len(exp)] != v:
                return False
    return True


def h_lazy(params, vals, ctx):
    """Values and counts that reach the directive through symbols bound to labels defined further down (coefficients -1, 3)."""
    b, x, k = vals["B"], vals["X"], vals["K"]
    require(0 <= b < 30000 and b % 2 == 0)
    require(-1000 < x < 1000)
    require(0 <= k <= 3)
    from ..common import concretize
    k = concretize(k)
    late = params.get("late", False)
    body = ("first: .byte 1, 2\n"
            "mrk = tail + 3\n"
            ".word finish - mrk + {X}, 3*mrk - 2*mrk - first, -mrk + tail + {X}\n"
            ".blkb cnt + {K}\n"
            "tail: .byte 7\n"
            "finish:\n"
            "cnt = 7\n")
    text = (body + ".link {B}\n") if late else (".link {B}\n" + body)
    o = assemble([("a.mac", text)], vals, route=ctx.route, order=["B", "X", "K"])
    ctx.observe_outcome(o)
    ctx.reach(o.status == "ok")
    if o.status != "ok" or o.errors:
        return False
    fill = 7 + k
    tail = b + 2 + 6 + fill
    mark, finish, first = tail + 3, tail + 1, b
    exp_words = [(finish - mark + x) % 65536, (mark - first) % 65536, (-3 + x) % 65536]
    code = o.code
    if len(code) != 2 + 6 + fill + 1:
        return False
    for i, w in enumerate(exp_words):
        if not (code[2 + 2 * i] + 256 * code[3 + 2 * i] == w):
            return False
    for i in range(8, 8 + fill):
        if code[i] != 0:
            return False
    return code[8 + fill] == 7 and code[0] == 1 and code[1] == 2


def h_get_as_int(params, vals, ctx):
    """get_as_int driven as a unit: for every integer value, accept iff it fits (signed magnitude < 2^n, or >= 0 when unsigned),
    and then return value mod 2^n; the default is used only where one is given."""
    from pdpy11 import reports
    from pdpy11.metacommand_impl import get_as_int
    from pdpy11.context import Context
    from pdpy11.types import Number
    from ..symasm import reset_module_state
    reset_module_state()
    v = vals["V"]
    bitness, unsigned, default = params["bitness"], params["unsigned"], params["default"]
    c = Context("u.mac", "12345")
    e = c.save()
    e.pos = 5
    tok = Number(c, e, "12345", v, is_valid_label=False)
    diags = []
    outcome = None
    try:
        with reports.handle_reports(lambda pr, ident, *r: diags.append(ident)):
            outcome = ("value", get_as_int({}, "test value", tok, tok, bitness=bitness, unsigned=unsigned, default=default))
    except reports.UnrecoverableError:
        outcome = ("error", None)
    ctx.observe(outcome[0])
    fits = True
    if unsigned and v < 0:
        fits = False
    if bitness is not None and not (-2 ** bitness < v < 2 ** bitness):
        fits = False
    ctx.reach(fits)
    if fits:
        return outcome[0] == "value" and outcome[1] == (v if bitness is None else v % 2 ** bitness) and diags == []
    # refused: always with exactly one value-out-of-bounds diagnostic; never a silently reduced value
    return outcome[0] == "error" and diags == ["value-out-of-bounds"]


def obligations(tier, seed):
    obs = []
    for bitness in (3, 6, 8, 16, 32, None):
        for unsigned in (False, True):
            for default in (None, 0):
                obs.append(Ob(oid=f"unit/get_as_int/{bitness}-{'u' if unsigned else 's'}-{'default' if default is not None else 'nodefault'}",
                              harness="pdpverif.props.c06:h_get_as_int", params={"bitness": bitness, "unsigned": unsigned, "default": default},
                              vars={"V": "int"}, timeout=120, pre="every integer"))
    for late in (False, True):
        obs.append(Ob(oid=f"lazy-values/{'late-link' if late else 'link-first'}", harness="pdpverif.props.c06:h_lazy", params={"late": late},
                      vars={"B": "int", "X": "int", "K": "int"}, timeout=300, per_path=90,
                      note="values and a fill count given through symbols bound to labels defined later"))
    max_arity = 4 if tier == "thorough" else 3
    for d in DIRS:
        for k in range(0, max_arity + 1):
            if d == "implicit" and k == 0:
                continue
            if d in (".db", ".dw") and k != 2:
                continue
            for odd in (False, True):
                vars_ = {"B": "int", **{f"V{i + 1}": "int" for i in range(k)}}
                obs.append(Ob(oid=f"values/{d}/{k}/{'odd' if odd else 'even'}-prefix", harness=H,
                              params={"dir": d, "arity": k, "odd_prefix": odd}, vars=vars_, timeout=300, per_path=60,
                              pre="every integer value; 0 <= B < 65536"))
                if k in (0, 2) or tier == "thorough":
                    obs.append(Ob(oid=f"values-late-link/{d}/{k}/{'odd' if odd else 'even'}-prefix", harness=H,
                                  params={"dir": d, "arity": k, "odd_prefix": odd, "late_link": True}, vars=vars_, timeout=300, per_path=60,
                                  pre="every integer value; 0 <= B < 65536; .link at the end of the source"))
    for d in (".blkb", ".blkw"):
        obs.append(Ob(oid=f"block/{d}", harness=HB, params={"dir": d, "small_max": 24 if tier == "thorough" else 12},
                      vars={"N": "int", "B": "int"}, timeout=300, per_path=60,
                      pre="N <= 24 or N >= 65536 (all such integers)"))
        for nm, win in (("half-range", [32767, 32769]), ("quarter-range", [16383, 16385]), ("top-of-range", [65534, 65536])):
            obs.append(Ob(oid=f"block/{d}/{nm}", harness=HB, params={"dir": d, "window": win}, vars={"N": "int", "B": "int"}, timeout=600, per_path=200,
                          pre=f"N in {win} (realised)"))
        if tier == "thorough":
            obs.append(Ob(oid=f"block/{d}/top", harness=HB, params={"dir": d, "small_max": -1, "big_min": 65530},
                          vars={"N": "int", "B": "int"}, timeout=900, per_path=200, pre="N < 0 or N >= 65530"))
    for kind in ("even", "odd"):
        obs.append(Ob(oid=f"pad/{kind}", harness=HP, params={"kind": kind}, vars={"B": "int"}, timeout=120))
    moduli = list(range(1, 65)) if tier == "thorough" else [1, 2, 3, 4, 8, 16, 64]
    for m in moduli:
        obs.append(Ob(oid=f"pad/align/{m}", harness=HP, params={"kind": "align", "m": m}, vars={"B": "int"}, timeout=300))
    obs.append(Ob(oid="pad/align/sym-le0", harness=HP, params={"kind": "align", "sym_m": True, "m_lo": -10 ** 9, "m_hi": 0, "reach_reject": True},
                  vars={"B": "int", "M": "int"}, timeout=120, pre="M <= 0: must be refused"))
    obs.append(Ob(oid="pad/align/sym-1..8", harness=HP, params={"kind": "align", "sym_m": True, "m_lo": 1, "m_hi": 8 if tier == "quick" else 24},
                  vars={"B": "int", "M": "int"}, timeout=600, pre="symbolic modulus"))
    for cs in ("utf-8", "latin-1", "koi8-r", "cp866", "bk"):
        for d in (".ascii", ".asciz"):
            if d == ".asciz" and cs not in ("utf-8", "bk"):
                continue
            obs.append(Ob(oid=f"string/{cs}/{d}/a?b", harness=HS, params={"charset": cs, "dir": d, "left": "a", "right": "b", "realise": cs == "bk"},
                          vars={"S_1": "str"}, timeout=900, per_path=60, pre=f"one character in windows {WINDOWS[cs]}"))
    for cs, before in (("cp866", "koi8-r"), ("utf-8", "cp866"), ("bk", "utf-8"), ("latin-1", "bk"), ("koi8-r", "utf-8")):
        obs.append(Ob(oid=f"string/{cs}/.ascii/a?b/after-{before}", harness=HS, params={"charset": cs, "dir": ".ascii", "left": "a", "right": "b", "realise": cs == "bk", "after_charset": before},
                      vars={"S_1": "str"}, timeout=900, per_path=60, pre=f"one character in windows {WINDOWS[cs]}; an assembly with charset {before} ran first in the same process"))
    obs.append(Ob(oid="string/utf-8/.ascii/2sym", harness=HS,
                  params={"charset": "utf-8", "dir": ".ascii", "nsym": 2, "windows": [(0x20, 0x30), (0x7C, 0x84), (0x7FC, 0x804)]},
                  vars={"S_1": "str", "S_2": "str"}, timeout=900, pre="two symbolic characters around the UTF-8 length boundaries"))
    for cs in ("koi8-r", "bk", "latin-1", "cp866"):
        obs.append(Ob(oid=f"charlit-wide/{cs}", harness="pdpverif.props.c06:h_charlit_wide", params={"charset": cs}, vars={"S_1": "str"}, timeout=900, per_path=60,
                      note='.dword "a? / .dword \'? / W = "a? / .word W / 400'))
    for d in (".ascii", ".asciz"):
        obs.append(Ob(oid=f"rawbyte/{d}", harness=HR, params={"dir": d}, vars={"V": "int"}, timeout=120, pre="every integer V"))
        obs.append(Ob(oid=f"rawbyte/{d}/utf-8-symbolic-lead", harness=HR, params={"dir": d, "charset": "utf-8", "symlead": True},
                      vars={"V": "int", "S_1": "str"}, timeout=600, pre="every integer V; one symbolic (1..4 byte) character before the raw byte"))
    obs.append(Ob(oid="ascii/escapes", harness=HE, params={}, vars={"V": "int"}, timeout=300,
                  note="concrete side check of escape forms + one symbolic raw byte"))
    return obs
