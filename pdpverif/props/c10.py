"""C10  Spelling does not matter."""
import random
import re

from ..common import require
from ..obligations import Ob
from ..symasm import assemble

P = "pdpverif.props.c10:"

META = {
    "claim": "every enumerated respelling of a program (letter case of mnemonics/directives/registers/symbols/radix prefixes/hex digits, blanks, "
             "blank lines, comments, radix of a literal, () / <> / ^x..x grouping, rN / %N, sp,pc / r6,r7, mnemonic synonyms, explicit / implicit "
             ".word, (rN) / @rN) assembles to the same outcome, base and bytes as the canonical spelling for ALL operand values and bases",
    "technique": "CrossHair symbolic execution of both spellings in one harness (the whole parser runs concretely on both texts, the whole "
                 "compiler on both token trees with shared symbolic values); z3 decides image equality for all values",
    "bounds": "catalogue of 40 statements using every operand form and directive; 14 rewrite rules each applied alone to every statement they "
              "touch + seeded compositions of 2..4 rules on 3..6-statement programs (quick 60, thorough 600); values: |X| < 2^16, bytes < 2^8, "
              "base even",
    "outside": ["WHICH spellings are compared is enumeration (the text is concrete for the regex parser): a spelling nobody enumerated is not "
                "covered; what the solver adds is that each compared pair agrees for every value and base",
                "respellings of the 21-program practice corpus"],
    "structure": "rule x statement (exhaustive), rule pairs on one statement (quick: implicit word list x every rule; thorough: all pairs), seeded compositions, symbols exported by a second file with definition and reference respelled independently",
    "stubs": [],
}

# Canonical catalogue.  Markers:  G( .. G) grouping brackets, N[digits] an octal literal, D(rN) register deferred
CATALOGUE = [
    "mov #{X}, r1", "mov {X}(r2), @{Y}(r3)", "cmp (r1)+, -(sp)", "mov @(r4)+, @-(r5)", "jsr pc, sub", "sob r2, lab", "clr D(r2)", "add r3, D(r4)",
    "lab: .word {X}, lab, N[17]", ".byte {V}, N[101]", ".blkb N[4]", "mul {X}(r1), r3", "ldf {X}(r1), ac1", "stf ac2, -(r3)", "bne lab",
    "x1 = {X} + N[2]", "mov #x1, @#x1", "trap {V}", "mov #G( {X} + N[3] G) * N[2], r0", ".word G( N[5] - {X} G) / N[3]",
    "mov #0x1f + {X}, r2", "mov #^x1f, r3", "mov #^o17 + ^b101 + ^d19, r4", "bis #^c{X}, r5", "xor r1, D(r3)", "rts pc", "mov sp, pc",
    "mov N[10](sp), N[2](pc)", "sub: tst D(r0)", ".word lab - sub, x1", "bcs lab", "emt N[377]", "spl N[5]", ".dword {X}",
    "tbl: .word {X}, ., . - tbl, lab - .", "mov #-N[5], r0", "tb2: .word -N[17] + {X}, -N[1]", "add #-N[2], D(r0)", "mov -N[4](r2), r3",
    "mov #G( -N[3] + {X} G), r1",
    "bne G( N[4] * N[1] + lab - N[4] G)", "sob r2, G( N[2] + lab - N[2] G)", "br G( lab G)", "trap -N[1]", "emt -N[200]", "trap G( {V} - N[400] G)",
]
SYNONYMS = {"bcs": "blo", "bcc": "bhis", "trap": "sys", "jsr pc,": "call", "rts pc": "ret", "clnzvc": "ccc", "ldf": "ldd", "stf": "std"}


def render_markers(text, group=("(", ")"), radix="oct", deferred="paren"):
    def num(m):
        v = int(m.group(1), 8)
        return {"oct": m.group(1), "dec": f"{v}.", "hex": hex(v), "HEX": "0X" + format(v, "X"), "caret-o": f"^O{m.group(1)}",
                "caret-d": f"^D{v}", "caret-b": "^B" + format(v, "b"), "caret-x": "^X" + format(v, "x"), "0o": "0o" + m.group(1), "0b": "0b" + format(v, "b")}[radix]
    text = re.sub(r"N\[([0-7]+)\]", num, text)
    text = text.replace("G( ", group[0]).replace(" G)", group[1])
    text = re.sub(r"D\((r[0-7])\)", (lambda m: f"({m.group(1)})") if deferred == "paren" else (lambda m: f"@{m.group(1)}"), text)
    return text


def protect(text, fn):
    """Apply fn to the text outside {placeholders}."""
    parts = re.split(r"(\{[A-Za-z0-9_]+\})", text)
    return "".join(p if p.startswith("{") else fn(p) for p in parts)


def r_upper(t):
    return protect(t, str.upper)


def r_mixed(t):
    return protect(t, lambda s: "".join(c.upper() if i % 2 else c for i, c in enumerate(s)))


def r_upper_mnemonic(t):
    def f(line):
        if re.match(r"^\s*\w+\s*=", line):
            return line
        m = re.match(r"^(\s*(?:\w+:\s*)?)(\.?[a-z_][a-z_0-9]*)(.*)$", line)
        return m.group(1) + m.group(2).upper() + m.group(3) if m else line
    return "\n".join(f(l) for l in t.split("\n"))


def r_upper_symbols(t):
    return protect(t, lambda s: re.sub(r"\b(lab|sub|x1)\b", lambda m: m.group(1).upper(), s))


def r_regs_percent(t):
    return protect(t, lambda s: re.sub(r"\br([0-7])\b", r"%\1", s))


def r_sp_pc(t):
    return protect(t, lambda s: re.sub(r"\bpc\b", "r7", re.sub(r"\bsp\b", "r6", s)))


def r_sp_pc_upper(t):
    return protect(t, lambda s: re.sub(r"\bpc\b", "PC", re.sub(r"\bsp\b", "SP", s)))


def r_blanks(t):
    return protect(t, lambda s: s.replace(", ", " ,\t  ").replace(" + ", "+").replace(" - ", "  -  ").replace(" * ", "*"))


def r_comments(t):
    lines = t.split("\n")
    out = ["; leading comment (with brackets) and 'quotes'", ""]
    for l in lines:
        out.append(l + ("   ; comment, r1 (r2)+ #5" if l.strip() else ""))
        out.append("")
        out.append("\t; a line of its own")
    return "\n".join(out)


def r_comments_tight(t):
    """A comment glued to the last character of every statement (no blank before the semicolon)."""
    return "\n".join(l + (";c, (r1)+ #5" if l.strip() else "") for l in t.split("\n"))


def r_synonyms(t):
    for a, b in SYNONYMS.items():
        t = protect(t, lambda s, a=a, b=b: re.sub(r"(^|\n|:\s*)" + re.escape(a) + r"(\s|$)", lambda m: m.group(1) + b + m.group(2), s))
    return t


def r_implicit_word(t):
    return protect(t, lambda s: re.sub(r"(\w+:\s*)\.word ", r"\1", s))


RULES = {
    "upper": r_upper, "mixed-case": r_mixed, "upper-mnemonic": r_upper_mnemonic, "upper-symbols": r_upper_symbols, "regs-percent": r_regs_percent,
    "sp-pc-numbers": r_sp_pc, "sp-pc-upper": r_sp_pc_upper, "blanks": r_blanks, "comments": r_comments, "comments-tight": r_comments_tight, "synonyms": r_synonyms,
    "implicit-word": r_implicit_word,
}
MARKER_VARIANTS = {
    "group-angle": {"group": ("<", ">")}, "group-caret": {"group": ("^/", "/")}, "deferred-at": {"deferred": "at"},
    "radix-dec": {"radix": "dec"}, "radix-hex": {"radix": "hex"}, "radix-HEX": {"radix": "HEX"}, "radix-caret-o": {"radix": "caret-o"},
    "radix-caret-d": {"radix": "caret-d"}, "radix-caret-b": {"radix": "caret-b"}, "radix-caret-x": {"radix": "caret-x"}, "radix-0o": {"radix": "0o"},
    "radix-0b": {"radix": "0b"},
}
CONTEXT_TAIL = "\nlab0: nop\n"


def needs(stmts):
    """Definitions the statements refer to."""
    text = "\n".join(stmts)
    extra = []
    if re.search(r"\blab\b", text) and not re.search(r"^lab:", text, re.M):
        extra.append("lab: .word {X}, lab, N[17]")
    if re.search(r"\bsub\b", text) and not re.search(r"^sub:", text, re.M):
        extra.append("sub: tst D(r0)")
    if re.search(r"\blab\b", text) and not re.search(r"^lab:", "\n".join(stmts + extra), re.M):
        extra.append("lab: .word {X}, lab, N[17]")
    if re.search(r"\bx1\b", text) and not re.search(r"^x1 =", text, re.M):
        extra.append("x1 = {X} + N[2]")
    return extra


def make_pair(stmts, rules, marker_kw):
    stmts = list(stmts)
    stmts += [e for e in needs(stmts) if e not in stmts]
    base_text = ".link {B}\n" + "\n".join(stmts) + "\n"
    canon = render_markers(base_text)
    var = render_markers(base_text, **marker_kw)
    for r in rules:
        var = RULES[r](var)
    return canon, var


def h_pair(params, vals, ctx):
    b = vals["B"]
    require(0 <= b < 60000 and b % 2 == 0)
    for v in ("X", "Y"):
        if v in vals:
            require(-65536 < vals[v] < 65536)
    if "V" in vals:
        require(0 <= vals["V"] < 256)
    pre1 = [tuple(f) for f in params.get("canon_pre", [])]      # a file linked ahead (exports the symbols the program uses)
    pre2 = [tuple(f) for f in params.get("variant_pre", [])]
    o1 = assemble(pre1 + [("a.mac", params["canon"])], vals, route=ctx.route)
    o2 = assemble(pre2 + [("a.mac", params["variant"])], vals, route=ctx.route)
    ctx.observe_outcome(o1)
    ctx.observe_outcome(o2)
    ctx.reach(o1.status == "ok" and o2.status == "ok")
    if o1.status != o2.status:
        return False
    if o1.status != "ok":
        return True
    return (o1.base == o2.base) and len(o1.code) == len(o2.code) and (o1.code == o2.code)


def _ob(tag, canon, var):
    vars_ = {"B": "int"}
    for v in ("X", "Y", "V"):
        if "{" + v + "}" in canon:
            vars_[v] = "int"
    return Ob(oid=tag, harness=P + "h_pair", params={"canon": canon, "variant": var}, vars=vars_, timeout=300, per_path=90,
              note=var.replace("\n", " / ")[:300])


def obligations(tier, seed):
    rnd = random.Random(1000 + seed)
    obs = []
    seen = set()

    def add(tag, canon, var):
        if canon == var or (canon, var) in seen:
            return
        seen.add((canon, var))
        # keep only structures whose canonical spelling assembles (checked concretely; e.g. word data after an odd-sized statement does not)
        probe = assemble([("a.mac", canon)], {"B": 0o1000, "X": 2, "Y": 4, "V": 1}, route="text")
        if probe.status != "ok":
            return
        obs.append(_ob(f"{tag}/{len(obs)}", canon, var))

    # every rule alone on every statement it touches
    for stmt in CATALOGUE:
        for r in RULES:
            canon, var = make_pair([stmt], [r], {})
            add(f"rule/{r}", canon, var)
        for name, kw in MARKER_VARIANTS.items():
            canon, var = make_pair([stmt], [], kw)
            add(f"rule/{name}", canon, var)
    # two rules on one statement: exhaustive in the thorough tier; in the quick tier the implicit word list (a different parser entry) x every rule
    import itertools as _it
    for stmt in CATALOGUE:
        for r1, r2 in _it.combinations(list(RULES), 2):
            if tier == "quick" and "implicit-word" not in (r1, r2):
                continue
            if {r1, r2} == {"upper", "mixed-case"}:
                continue
            first, second = (r1, r2) if r1 == "implicit-word" or r2 != "implicit-word" else (r2, r1)
            if "implicit-word" in (r1, r2) and make_pair([stmt], ["implicit-word"], {})[0] == make_pair([stmt], ["implicit-word"], {})[1]:
                continue
            canon, var = make_pair([stmt], [first, second], {})
            add(f"rule2/{first}+{second}", canon, var)
    # '.end' in every letter case, before text that is not even a statement
    for sp in (".END", ".End", "END", "eNd"):
        canon = ".link {B}\nmov #{X}, r1\n.end\n))) ^Z 'x\n"
        obs.append(_ob(f"end-spelling/{sp}", canon, canon.replace(".end", sp)))
    # symbols exported by another file: the letter case of the definition and of the reference are independent
    defs = "lab:: .word {X}, lab, 17\nsub:: tst (r0)\nx1 == {X} + 2\n"
    uses = ["jsr pc, sub", "sob r2, lab", "bne lab", "mov #x1, @#x1", ".word lab - sub, x1", "bcs lab", "mov lab, sub"]
    canon_u = ".link {B}\n" + "\n".join(uses) + "\n"
    for rd in (None, "upper", "mixed-case"):
        for ru in (None, "upper", "mixed-case", "upper-symbols"):
            if rd is None and ru is None:
                continue
            vd = RULES[rd](defs) if rd else defs
            vu = RULES[ru](canon_u) if ru else canon_u
            ob = _ob(f"two-files/defs-{rd or 'same'}/uses-{ru or 'same'}", canon_u, vu)
            ob.vars["X"] = "int"
            ob.params["canon_pre"] = [["d.mac", defs]]
            ob.params["variant_pre"] = [["d.mac", vd]]
            obs.append(ob)
    # compositions on small programs
    n = 600 if tier == "thorough" else 60
    for k in range(n):
        stmts = rnd.sample(CATALOGUE, rnd.randint(3, 6))
        rules = rnd.sample(list(RULES), rnd.randint(1, 3))
        if "upper" in rules and "mixed-case" in rules:
            rules.remove("mixed-case")
        kw = {}
        for name in rnd.sample(list(MARKER_VARIANTS), rnd.randint(0, 2)):
            kw.update(MARKER_VARIANTS[name])
        canon, var = make_pair(stmts, rules, kw)
        add("compose/" + "+".join(rules + sorted(kw)), canon, var)
    return obs
