"""C09  Relocation law: only absolute address words move with the base."""
import random

from ..common import require
from ..obligations import Ob
from ..symasm import assemble, word_at

H = "pdpverif.props.c09:h_reloc"

META = {
    "claim": "assembling one source at two link bases gives images of equal length in which every word the reference model marks absolute differs "
             "by exactly B2-B1 (mod 2^16) and every other word (opcodes, modes, branch and PC-relative displacements, constants, label "
             "differences) is identical",
    "technique": "CrossHair symbolic execution of two assemblies in one harness with two symbolic bases; z3 decides word-wise equality/difference "
                 "for all base pairs",
    "bounds": "programs of 3..8 statements from a 22-entry catalogue (branches, sob, relative, relative-deferred, immediate/absolute/.word of "
              "labels, label differences, constants, byte data), labels anywhere; bases: all even 0..65534 with base+length <= 2^16 when the "
              "program has absolute references; position-independent programs additionally at bases whose addresses wrap through 0o177777; "
              "immediate constants symbolic",
    "outside": ["programs with absolute references at bases where an address exceeds 0o177777 (the assembler rejects '.word L' >= 2^16)",
                "three bases at once (the law is binary; pairs are decided for all values)"],
    "structure": ".link at the start or at the end of the source (base unknown while compiling); 13 fixed programs + seeded random programs (quick 30, thorough 400); the source assembled twice in one process with '.once'; one program split into two linked files with '.link' in either",
    "stubs": [],
}

# statement catalogue: (template, word kinds) ; {L} = a label of the program, {M} = another label
CAT = [
    ("br {L}", ["f"]), ("bne {L}", ["f"]), ("sob r2, {Lb}", ["f"]),
    ("mov {L}, r0", ["f", "f"]), ("mov @{L}, r1", ["f", "f"]), ("clr {L}", ["f", "f"]), ("cmp {L}, {M}", ["f", "f", "f"]),
    ("jsr pc, {L}", ["f", "f"]), ("jmp {L}", ["f", "f"]),
    ("mov #{L}, r0", ["f", "a"]), ("mov @#{L}, r3", ["f", "a"]), ("jmp @#{L}", ["f", "a"]), ("cmp #{L}, @#{M}", ["f", "a", "a"]),
    (".word {L}", ["a"]), (".word {L}, {M}", ["a", "a"]), (".word {L}-{M}", ["f"]), (".word {L}+4", ["a"]),
    (".word 123", ["f"]), ("mov #{X}, r4", ["f", "f"]), ("mov {X}(r1), {L}", ["f", "f", "f"]),
    (".byte 1, 2", ["f"]), ("nop", ["f"]),
    ("mov {L}-2(r1), r0", ["f", "a"]), ("clr @{L}-4(r2)", ["f", "a"]), ("mov 6+{L}(r3), {M}", ["f", "a", "f"]),
]
PIC = [c for c in CAT if "a" not in c[1]]


def make_program(rnd, n, pic=False):
    cat = PIC if pic else CAT
    stmts = [rnd.choice(cat) for _ in range(n)]
    lines, kinds = [], []
    labels = [f"L{i}" for i in range(n + 1)]
    for i, (tmpl, ks) in enumerate(stmts):
        l = rnd.choice(labels)
        m = rnd.choice(labels)
        lb = rnd.choice(labels[:i + 1])  # sob can only jump backwards
        lines.append(f"{labels[i]}: " + tmpl.replace("{Lb}", lb).replace("{L}", l).replace("{M}", m))
        kinds += ks
    lines.append(f"{labels[n]}:")
    return "\n".join(lines) + "\n", kinds


FIXED = [
    ("L0: mov #L1, r0\nL1: .word L0, L1-L0\nbr L0\n", ["f", "a", "a", "f", "f"]),
    ("L0: mov L1, r0\nmov @#L1, r1\nL1: .word 5\n", ["f", "f", "f", "a", "f"]),
    ("L0: jsr pc, L2\nL1: .word L2\nL2: nop\nsob r1, L2\n", ["f", "f", "a", "f", "f"]),
    ("L0: cmp L1, L1\nL1: cmp #L0, @#L1\n.word L1-L0, L0+2\n", ["f", "f", "f", "f", "a", "a", "f", "a"]),
    ("L0: clr @L0\nbne L0\n.word L0\n", ["f", "f", "f", "a"]),
    ("L0: mov #{X}, L1\nL1: .word {X}\n", ["f", "f", "f", "f"]),
    ("L0: .word L1\n.blkb 10.\nL1: .word L0\n", ["a", "f", "f", "f", "f", "f", "a"]),
    ("X1 = L1 + 2\nL0: .word X1\nL1: mov #X1, X1\n", ["a", "f", "a", "f"]),
    ("L0: .word D\nD = L1 - L0\nL1: .word L1 - D\n", ["f", "a"]),
    ("L0: mov pc, r0\nadd #L1-., r0\nL1: .word 0\n", ["f", "f", "f", "f"]),
    # forward aliases: a symbol bound to a label defined further down, used in differences (coefficient -1 of the base)
    ("entry = L1\nL0: mov #L2-entry, r0\nL1: nop\nL2: .word entry, L2-entry\n", ["f", "f", "f", "a", "f"]),
    ("fin = L2\nstart = L0\nL0: mov #fin-start, L1\nL1: .word fin, start-fin\nL2:\n", ["f", "f", "f", "a", "f"]),
    ("L0: clr tgt\nsub #tgt-L0, r1\ntgt = L1\n.word 0\nL1: .word tgt\n", ["f", "f", "f", "f", "f", "a"]),
    # displacements written as differences / sums directly before the register
    ("L0: mov L1-2(r1), r0\nL1: clr @L0-4(r2)\nmov 6+L1(r3), L0\n", ["f", "a", "f", "a", "f", "a", "f"]),
    # constant-first sums over the very first label (a bare base promise while '.link' is still to come) and over an alias of it
    ("L0: mov #4+L0, r0\n.word 6+L0, 2+al, al+2\nal = L0\n", ["f", "a", "a", "a", "a"]),
    # references just below the first label: at base 0 they wrap to the top of memory, in every operand position alike
    ("L0: clr @#L0-2\nmov #L0-2, r1\n.word L0-2\nmov @#L0-4, @#L0-6\n", ["f", "a", "f", "a", "a", "f", "a", "a"]),
    # a 32-bit cell holding an address: the only absolute reference that still assembles when the address passes 0o177777
    ("L0: nop\nL1: .dword L1, L0 + 4\nbr L0\n", ["f", "dh", "dl", "dh", "dl", "f"]),
]


def h_reloc(params, vals, ctx):
    prog, kinds = params["prog"], params["kinds"]
    b1, b2 = vals["B1"], vals["B2"]
    nbytes = 2 * len(kinds)
    has_abs = "a" in kinds
    for b in (b1, b2):
        require(0 <= b < 65536 and b % 2 == 0)
        if has_abs:
            require(b + nbytes + params.get("slack", 8) <= 65536)
    if params.get("wrap"):
        require(b1 + nbytes > 65536)  # addresses wrap through 0o177777 at the first base
    if "X" in vals:
        require(-65536 < vals["X"] < 65536)
    v1 = {"B": b1, **({"X": vals["X"]} if "X" in vals else {})}
    v2 = {"B": b2, **({"X": vals["X"]} if "X" in vals else {})}
    if params.get("split"):
        # the same program as two linked source files with exported labels; '.link' sits in one of them
        lines = prog.replace(":", "::").split("\n")[:-1]
        parts = [lines[:params["split"]], lines[params["split"]:]]
        where = params.get("link_file", 1)
        parts[where] = ([".link {B}"] + parts[where]) if params.get("link_pos", "start") == "start" else (parts[where] + [".link {B}"])
        files = [("a.mac", "\n".join(parts[0]) + "\n"), ("b.mac", "\n".join(parts[1]) + "\n")]
    else:
        text = (".link {B}\n" + prog) if params.get("link_pos", "start") == "start" else (prog + ".link {B}\n")
        files = [("a.mac", params.get("head", "") + text)]
    o1 = assemble(files, v1, route=ctx.route)
    o2 = assemble(files, v2, route=ctx.route)
    ctx.observe_outcome(o1)
    ctx.observe_outcome(o2)
    ctx.reach(o1.status == "ok" and o2.status == "ok")
    if o1.status != "ok" or o2.status != "ok" or o1.errors or o2.errors:
        return False
    if not (o1.base == b1 and o2.base == b2):
        return False
    c1, c2 = o1.code, o2.code
    if len(c1) != nbytes or len(c2) != nbytes:
        return False
    for i, k in enumerate(kinds):
        w1, w2 = word_at(c1, 2 * i), word_at(c2, 2 * i)
        if k == "f":
            if not (w1 == w2):
                return False
        elif k == "dl":
            continue
        elif k == "dh":
            # high word (stored first) and low word form one 32-bit cell: it moves by exactly the base difference, carry included
            v1 = 65536 * w1 + word_at(c1, 2 * i + 2)
            v2 = 65536 * w2 + word_at(c2, 2 * i + 2)
            if not (v2 - v1 == b2 - b1):
                return False
        else:
            if not ((w2 - w1) % 65536 == (b2 - b1) % 65536):
                return False
            # and it really is the absolute address it should be (not merely shifted consistently)
    return True


def obligations(tier, seed):
    rnd = random.Random(1000 + seed)
    obs = []

    def add(tag, prog, kinds, **kw):
        vars_ = {"B1": "int", "B2": "int"}
        if "{X}" in prog:
            vars_["X"] = "int"
        obs.append(Ob(oid=tag, harness=H, params={"prog": prog, "kinds": kinds, **kw}, vars=vars_, timeout=300, per_path=60,
                      note=prog.replace("\n", " / "), pre="both bases even, 0..65534" + ("" if "a" not in kinds else ", base+length <= 2^16")))

    for i, (prog, kinds) in enumerate(FIXED):
        add(f"fixed/{i}", prog, kinds)
        add(f"fixed-link-at-end/{i}", prog, kinds, link_pos="end")
    # the source is assembled twice in one process under one file name: '.once' guards includes, not assemblies
    add("once/0", FIXED[0][0], FIXED[0][1], head=".once\n")
    add("once/3", FIXED[3][0], FIXED[3][1], head=".once\n", link_pos="end")
    # one program as two linked files, '.link' in either
    for i, k in ((0, 1), (1, 2), (2, 2), (3, 1), (4, 2), (6, 1)):
        for lf in (0, 1):
            for lp in ("start", "end"):
                if tier == "quick" and (i + lf + (lp == "end")) % 2:
                    continue
                add(f"two-files/{i}/link-in-{'ab'[lf]}-{lp}", FIXED[i][0], FIXED[i][1], split=k, link_file=lf, link_pos=lp)
    n = 400 if tier == "thorough" else 30
    for i in range(n):
        prog, kinds = make_program(rnd, rnd.randint(3, 8))
        add(f"random/{i}", prog, kinds, link_pos="end" if i % 3 == 2 else "start")
    for i in range(60 if tier == "thorough" else 8):
        prog, kinds = make_program(rnd, rnd.randint(3, 8), pic=True)
        add(f"pic-wrap/{i}", prog, kinds, wrap=True)
    return obs
