"""C03  Symbol values do not depend on definition order."""
import itertools
import random

from ..common import require
from ..obligations import Ob
from ..symasm import assemble

H = "pdpverif.props.c03:h_perm"

META = {
    "claim": "a program and every enumerated re-placement/permutation of its constant definitions give the same outcome class, base and bytes "
             "for all values of the leaf constants and the link base; final symbol values equal the reference evaluation",
    "technique": "CrossHair symbolic execution of both orderings in one harness (compile_assignment, Symbol._resolve/not_ready, "
                 "Deferred.construct/try_compute, deferred operator arithmetic); z3 decides image equality for all leaf values",
    "bounds": "k <= 4 mutually dependent definitions: all k! orders x 3 placements (quick: seeded subset); additive chains of depth 8 and 20, "
              "non-linear chains (/ % << >> *) of depth 6, in forward/reverse/interleaved order; leaf constants unbounded except under shifts "
              "(0..8) and as block counts (0..6); base 0..65534 even",
    "outside": ["chains deeper than 20 (additive) / 6 (non-linear): the property's 300/30 are a budget choice away, not a different mechanism",
                "moving definitions inside '.repeat' or across '.end'"],
    "structure": "16 unit-level shapes of the deferred-value algebra (all coefficients and values unbounded integers; promises settled with pending values, with other promises and with polynomials); 7 definition families x uses in immediate, index, absolute, relative, branch target, .word, .byte, .blkb count, .link; a constant nobody refers to that fails once later definitions are known; a file linked earlier that exports the name defined further down",
    "stubs": [],
}

USES = [
    "mov #s3, r0", "mov s2(r1), r2", "mov @#s1, r0", "clr s3", ".word s3, s1", ".byte s0, 0", "U: bne U+s0+s0", "mov s1, s2",
    ".word 2*s1*s0", "mov #-s0*s1, r0", ".word 100. - s2, s1 + s1 - s3", "1$: inc r0\nbne 1$", "2$: sob r1, 2$",
]

FAMILIES = {
    "chain": ["s0 = {A}", "s1 = s0 + 1", "s2 = s1 + s0", "s3 = s2 - {C}"],
    "diamond": ["s0 = {A}", "s1 = s0 * 2", "s2 = s0 + {C}", "s3 = s1 - s2"],
    "indep": ["s0 = {A}", "s1 = {C}", "s2 = 5", "s3 = 177"],
    "nonlin": ["s0 = {A}", "s1 = s0 / 3", "s2 = s1 % 7 + {C}", "s3 = s2 * s1"],
    "label": ["s0 = {A}", "s1 = LB + s0", "s2 = LE - LB", "s3 = s2 * {C} + s0"],
    "prod": ["s0 = {A}", "s1 = {C}", "s2 = 2 * s0 * s1", "s3 = (s0 - s1) * s1 - s0 * s1"],
    "poly": ["s0 = {A}", "s1 = s0 + 5", "s2 = 100. - s1", "s3 = 3 * s2 - s1 - s1"],
}


def program(defs, uses, placement, link):
    lines = []
    if link:
        lines.append(".link {B}")
    body = ["LB: nop"] + uses + ["LE: nop"]
    if placement == "before":
        lines += defs + body
    elif placement == "after":
        lines += body + defs
    else:  # interleaved
        out = list(body)
        for i, d in enumerate(defs):
            out.insert(min(len(out), 1 + 2 * i), d)
        lines += out
    return "\n".join(lines) + "\n"


def same(o1, o2):
    if o1.status != o2.status:
        return False
    if o1.status == "ok":
        if not (o1.base == o2.base):
            return False
        if len(o1.code) != len(o2.code):
            return False
        if not (o1.code == o2.code):
            return False
    # which of several errors is reported first may depend on evaluation order; the property speaks of
    # bytes and of the success/failure outcome only
    return True


def h_perm(params, vals, ctx):
    b = vals.get("B")
    if b is not None:
        require(0 <= b < 65000 and b % 2 == 0)
    for v, (lo, hi) in (params.get("ranges") or {}).items():
        require(lo <= vals[v] <= hi)
    t1, t2 = params["canonical"], params["variant"]
    pre = [tuple(f) for f in (params.get("prefix_files") or [])]   # other source files linked ahead of the one under test
    o1 = assemble(pre + [("a.mac", t1)], vals, route=ctx.route)
    o2 = assemble(pre + [("a.mac", t2)], vals, route=ctx.route)
    ctx.observe_outcome(o1)
    ctx.observe_outcome(o2)
    ctx.reach((o1.status == "ok" and o2.status == "ok") if not params.get("reach_failed") else (o1.status == "failed" and o2.status == "failed"))
    if not same(o1, o2):
        return False
    if params.get("expect_fail_when") is not None:
        # the failure itself is part of the outcome: it may not depend on the order either (an unused failing constant included)
        var, value = params["expect_fail_when"]
        if (vals[var] == value) != (o1.status == "failed") or (vals[var] == value) != (o2.status == "failed"):
            return False
    exp = params.get("expect")
    if exp and o1.status == "ok":
        # final value of a symbol by the closed form of the chain: [const, coefA, coefC]
        name, (c0, ca, cc) = exp
        want = c0 + ca * vals.get("A", 0) + cc * vals.get("C", 0)
        fi = 1 + len(pre)
        if not (o1.symbol(name, fi) == want and o2.symbol(name, fi) == want):
            return False
    return True


def _link_through_inner(e):
    """A base promise whose value is 'K1 + K2 * (label of an inner file - own label)'; the inner file's base was settled with 'own base + 2'."""
    from pdpy11.deferred import Promise, Deferred
    root, inner = Promise(int, "LA1"), Promise(int, "LA2")
    lab_root, lab_inner = root + e["C0"], inner + 4
    inner.settle(root + 2)
    root.settle(Deferred(int, lambda: e["K1"] + e["K2"] * (lab_inner - lab_root)))
    return lab_inner + 0, e["K1"] + e["K2"] * (6 - e["C0"]) + 6


ALGEBRA = {
    "link-through-inner-promise": _link_through_inner,
    # name: function(env) -> (deferred expression built with pdpy11's own operators, expected integer)
    "scaled-pending":        lambda e: (e["K1"] * e["x"] + e["C0"], e["K1"] * e["A"] + e["C0"]),
    "difference-of-pending": lambda e: (e["K1"] * e["x"] - e["K2"] * e["y"] + e["C0"], e["K1"] * e["A"] - e["K2"] * e["B"] + e["C0"]),
    "alias-of-polynomial":   lambda e: (e["K2"] * e["z"] - e["z"] + e["C0"], (e["K2"] - 1) * (e["K1"] * e["A"] + 5) + e["C0"]),
    "negated-alias":         lambda e: (100 - e["z"], 100 - (e["K1"] * e["A"] + 5)),
    "alias-of-alias":        lambda e: (e["K2"] * e["zz"] + e["z"], (e["K2"] + 1) * (e["K1"] * e["A"] + 5) + 7 * e["K2"]),
    "product-of-pending":    lambda e: ((2 * e["x"]) * e["y"], 2 * e["A"] * e["B"]),
    "product-of-diff":       lambda e: ((e["x"] - e["y"]) * e["y"], (e["A"] - e["B"]) * e["B"]),
    "product-with-const":    lambda e: ((e["x"] + e["C0"]) * e["y"], (e["A"] + e["C0"]) * e["B"]),
    "promise-cancels":       lambda e: (e["K1"] * ((e["P"] + 12) - e["P"]) + e["C0"], 12 * e["K1"] + e["C0"]),
    "promise-before-after":  lambda e: ((e["late"] - e["early"]) * e["K1"], 6 * e["K1"]),
    "promise-value":         lambda e: (e["late"] + e["K1"] * e["early"], (e["B"] + 6) + e["K1"] * e["B"]),
    "nested-promise-cancels": lambda e: (e["K1"] * (e["qlate"] - e["qearly"]) + e["K2"] * (e["qlate"] - e["late"]) + e["C0"], e["K1"] * 1 + e["K2"] * (4 + 2 - 6) + e["C0"]),
    "nested-promise-value":  lambda e: (e["qlate"] + e["K2"] * e["qearly"] - e["K1"] * e["P"], (e["B"] + 6) + e["K2"] * (e["B"] + 5) - e["K1"] * e["B"]),
    "neg-neg":               lambda e: (-(-(e["K1"] * e["x"] - e["y"])), e["K1"] * e["A"] - e["B"]),
    "sum-same-variable":     lambda e: (e["x"] + e["x"] - 2 * e["x"] + e["K1"] * e["x"], e["K1"] * e["A"]),
}


def h_algebra(params, vals, ctx):
    """The deferred-value algebra itself (LinearPolynomial / Deferred / Promise), driven as a unit: expressions over values
    that are still pending when the expression is built evaluate to the arithmetic result once everything is known."""
    from pdpy11.deferred import Deferred, Promise, LinearPolynomial, wait, not_ready
    from ..symasm import reset_module_state
    reset_module_state()
    a, b, k1, k2, c0 = vals["A"], vals["B"], vals["K1"], vals["K2"], vals["C0"]
    known = {}

    def pending(name):
        def fn():
            if name not in known:
                not_ready()      # what a reference to a not-yet-defined symbol does during an early attempt
                raise KeyError(name)
            return known[name]
        return fn

    x = Deferred(int, pending("x"))         # pending: not constructed through try_compute
    y = Deferred(int, pending("y"))
    z = Deferred(int, lambda: k1 * x + 5)          # resolves to a polynomial in x
    zz = Deferred(int, lambda: z + 7)              # resolves to a polynomial in z
    P = Promise(int, "LA")
    early = P + 0 if params.get("early_poly") else P   # written before the promise is settled
    P.settle(Deferred(int, pending("y")))
    late = P + 6                                    # written after it was settled
    Q = Promise(int, "LA-inner")                    # a promise settled with 'other promise + offset' (an include in the middle of its parent)
    qearly = Q + 1
    Q.settle(P + 4)
    qlate = Q + 2
    env = {"Q": Q, "qearly": qearly, "qlate": qlate, "x": x, "y": y, "z": z, "zz": zz, "P": P, "early": early, "late": late, "A": a, "B": b, "K1": k1, "K2": k2, "C0": c0}
    expr, expected = ALGEBRA[params["shape"]](env)
    known["x"], known["y"] = a, b                   # everything becomes known only now
    got = wait(expr)
    ctx.observe(got)
    ctx.reach(True)
    return got == expected


def _ob(tag, canonical, variant, vars_, **kw):
    return Ob(oid=tag, harness=H, params={"canonical": canonical, "variant": variant, **kw}, vars={v: "int" for v in vars_}, timeout=300, per_path=90,
              note=variant.replace("\n", " / "))


def chain_defs(n, kind):
    if kind == "add":
        return ["c0 = {A}"] + [f"c{i} = c{i - 1} + {i}." for i in range(1, n + 1)]
    ops = ["* 3", "/ 2", "+ {C}", "% 1000.", "<< 1", ">> 1"]
    return ["c0 = {A}"] + [f"c{i} = c{i - 1} {ops[(i - 1) % len(ops)]}" for i in range(1, n + 1)]


def obligations(tier, seed):
    rnd = random.Random(300 + seed)
    obs = []
    for fam, defs in FAMILIES.items():
        perms = list(itertools.permutations(range(len(defs))))
        combos = [(p, pl) for p in perms for pl in ("before", "after", "interleaved")]
        if tier == "quick":
            rnd.shuffle(combos)
            combos = combos[:10] + [(tuple(reversed(range(len(defs)))), "after"), (tuple(range(len(defs))), "after")]
            combos = list(dict.fromkeys(combos))
        for k, (p, pl) in enumerate(combos):
            uses = USES if tier == "thorough" else [USES[(k + j * 3) % len(USES)] for j in range(5)] + ["1$: inc r0\nbne 1$"]
            uses = [line for u in dict.fromkeys(uses) for line in u.split("\n")]
            link = True
            canonical = program(defs, uses, "before", link)
            variant = program([defs[i] for i in p], uses, pl, link)
            if variant == canonical:
                continue
            vars_ = ["A", "B"] + (["C"] if any("{C}" in d for d in defs) else [])
            obs.append(_ob(f"perm/{fam}/{''.join(map(str, p))}-{pl}", canonical, variant, vars_))
    # the count of a reserved block and the link base themselves defined later
    for pl in ("after", "interleaved"):
        defs = ["n0 = {A}", "n1 = n0 + 1", "lb = {B} + n0 - n0"]
        uses = [".blkb n1", "L1: .word L1", ".even", "L2: .word L2 - L1"]
        can = "\n".join([".link lb"] + defs + uses) + "\n"
        var = "\n".join(([".link lb"] + uses + list(reversed(defs))) if pl == "after" else ([defs[2], ".link lb", uses[0], defs[1]] + uses[1:] + [defs[0]])) + "\n"
        obs.append(_ob(f"count-and-base/{pl}", can, var, ["A", "B"], ranges={"A": [-1, 6]}))
    # products / differences of symbols that are themselves still pending when first used
    pend = ["q0 = {A}", "s0 = q0 + 1", "s1 = q0 + {C}", "c0 = 2 * s0 * s1", "c1 = (s0 - s1) * s1", "c2 = -s0 * s1 + 100. - s1", "c3 = (s0 << 1) * s1"]
    use = [".dword c0, c1, c2", "X3 = c3"]
    can = "\n".join(pend + use) + "\n"
    for oname, text in (("reverse", use + list(reversed(pend))), ("use-first-deps-last", use + pend[3:] + pend[1:3] + pend[:1]),
                        ("mixed", pend[1:3] + use + pend[:1] + pend[3:]), ("deps-last", pend[3:] + use + pend[1:3] + pend[:1])):
        obs.append(_ob(f"pending-products/{oname}", can, "\n".join(text) + "\n", ["A", "C"], ranges={"A": [-1000, 1000], "C": [-1000, 1000]},
                       expect=None))
    # a constant nobody refers to whose expression fails once its (later defined) inputs are known: the failure is part of the outcome
    udefs = ["unit = {A}", "span = unit - 1", "quot = 100. / span + 1", "aux = unit * 3 + 2"]
    uuse = ["mov #span, r0", ".word unit"]
    ucan = "\n".join(udefs + uuse) + "\n"
    uperms = list(itertools.permutations(range(4)))
    if tier == "quick":
        rnd.shuffle(uperms)
        uperms = list(dict.fromkeys(uperms[:6] + [(1, 2, 3, 0), (1, 2, 0, 3), (3, 2, 1, 0), (2, 1, 0, 3)]))
    for p in uperms:
        for pl in ("before", "after"):
            d = [udefs[i] for i in p]
            var = "\n".join((d + uuse) if pl == "before" else (uuse + d)) + "\n"
            if var == ucan:
                continue
            obs.append(_ob(f"unused-failing/{''.join(map(str, p))}-{pl}", ucan, var, ["A"], expect_fail_when=["A", 1], ranges={"A": [-1000, 1000]}))
    # the operand of a location-counter assignment ('. = expr', after the base is known) defined before or after it
    for oname, body in (("skip-abs", [".byte 1", ". = LB + gap + 2", "L1: .word L1", ".word gap"]), ("skip-rel", [".word 1", ". = . + gap", "L1: .word L1, gap"]),
                        ("skip-twice", [".word 1", ". = . + gap", "L1: .word L1", ". = L1 + gap + 2", "L2: .word L2 - L1"])):
        ddefs = ["g0 = {A}", "gap = g0 * 2"]
        dcan = "\n".join([".link {B}", "LB: nop"] + ddefs + body) + "\n"
        for vname, lines in (("after", body + ddefs), ("after-reversed", body + ddefs[::-1]), ("split", ddefs[1:] + body + ddefs[:1])):
            obs.append(_ob(f"dot-assign/{oname}/{vname}", dcan, "\n".join([".link {B}", "LB: nop"] + lines) + "\n", ["A", "B"], ranges={"A": [0, 6]}))
    # definitions placed directly behind statements that are still pending and read '.', or whose size is one of the symbols;
    # with the base known from the start and with '.link' at the very end
    ddefs2 = ["s0 = {A}", "s1 = s0 + 2"]
    duses = [".word LE - ., s1", ".byte 1, LE - ., 3", ".even", ".blkb s0", "M1: .word M1 - LB, s1", ".ascii \"ab\"<s1>", ".even", "M2: .word M2 - M1"]
    for late in (False, True):
        head, tail = ([], [".link {B}"]) if late else ([".link {B}"], [])
        dcan2 = "\n".join(head + ["LB: nop"] + ddefs2 + duses + ["LE: nop"] + tail) + "\n"
        for j in range(len(duses) + 1):
            lines = head + ["LB: nop"] + duses[:j] + ddefs2[::-1] + duses[j:] + ["LE: nop"] + tail
            obs.append(_ob(f"behind-pending/{'late-link' if late else 'link-first'}/{j}", dcan2, "\n".join(lines) + "\n", ["A", "B"], ranges={"A": [0, 5]}))
    # a register number given by a symbol: accepted or refused alike wherever the symbol is defined
    for oname, use in (("fp-src", "ldf %rn, ac0"), ("fp-single", "clrf %rn"), ("general", "mov %rn, (%rn)+"), ("fp-expr", "mulf %<rn+1>, ac1")):
        rdefs = ["r0n = {A}", "rn = r0n"]
        rcan = "\n".join(rdefs + [use, ".word 1"]) + "\n"
        for vname, lines in (("after", [use, ".word 1"] + rdefs), ("after-reversed", [use, ".word 1"] + rdefs[::-1]), ("split", rdefs[1:] + [use, ".word 1"] + rdefs[:1])):
            obs.append(_ob(f"register-symbol/{oname}/{vname}", rcan, "\n".join(lines) + "\n", ["A"], ranges={"A": [-1, 9]}))
    # definitions that are also exported, in every order: the outcome (here: also WHICH outcome -- '==' under '.extern all' is a duplicate) stays
    for fam, edefs in (("extern-all+==", [".extern all", "K == {A}", "J = K + 1"]), ("extern-name+=", [".extern K", "K = {A}", "J == K + 1"]),
                       ("label::+extern-all", ["K:: .word {A}", ".extern all", "J = K + 2"])):
        euse = [".word J, K"]
        ecan = "\n".join(edefs + euse) + "\n"
        for p in itertools.permutations(range(3)):
            for pl in ("before", "after"):
                d = [edefs[i] for i in p]
                var = "\n".join((d + euse) if pl == "before" else (euse + d)) + "\n"
                if var != ecan:
                    obs.append(_ob(f"export-forms/{fam}/{''.join(map(str, p))}-{pl}", ecan, var, ["A"], ranges={"A": [-1000, 1000]}, reach_failed=fam != "extern-name+="))
    # the same name exported by a file linked earlier: the file's own (later) definition still wins, wherever it is placed
    other = [["o.mac", "lim == {C}\n.word lim\n"]]
    sdefs = ["lim = {A}", "size = lim * 2 + 1"]
    suse = ["mov #lim, r0", ".word size, lim", ".byte lim, 0"]
    scan = "\n".join(sdefs + suse) + "\n"
    for oname, lines in (("use-first", suse + sdefs), ("use-first-reversed", suse + sdefs[::-1]), ("middle", suse[:1] + sdefs[1:] + suse[1:] + sdefs[:1]),
                         ("dependent-first", sdefs[::-1] + suse)):
        for link in (False, True):
            pre_l = [".link {B}"] if link else []
            obs.append(_ob(f"shadowed-export/{oname}" + ("/linked" if link else ""), "\n".join(pre_l + sdefs + suse) + "\n", "\n".join(pre_l + lines) + "\n",
                           ["A", "C"] + (["B"] if link else []), prefix_files=other, ranges={"A": [0, 100], "C": [-1000, 1000]}, expect=["size", [1, 2, 0]]))
    for shape in ALGEBRA:
        for early_poly in (False, True):
            if early_poly and "early" not in ALGEBRA[shape].__code__.co_consts and shape not in ("promise-before-after", "promise-value"):
                continue
            obs.append(Ob(oid=f"algebra/{shape}" + ("/early-polynomial" if early_poly else ""), harness="pdpverif.props.c03:h_algebra",
                          params={"shape": shape, "early_poly": early_poly}, vars={"A": "int", "B": "int", "K1": "int", "K2": "int", "C0": "int"},
                          timeout=300, per_path=90, note="unit-level: LinearPolynomial/Deferred/Promise algebra over pending values, all integers"))
    # long chains
    for n, kind in ((8, "add"), (20, "add"), (6, "nonlin"), (300, "add")):
        defs = chain_defs(n, kind)
        use = [f".word c{n}"] if kind == "add" else [f"mov #c{n}, r0"]
        can = "\n".join(defs + use) + "\n"
        orders = {"reverse": list(reversed(defs)), "interleaved": defs[::2] + defs[1::2], "use-first": None}
        if n >= 100:
            orders = {"use-first": None}    # the property's stated depth, in the order that defers everything
        for oname, od in orders.items():
            var = "\n".join((use + list(reversed(defs))) if od is None else (od + use)) + "\n"
            vars_ = ["A"] + (["C"] if kind == "nonlin" else [])
            exp = [f"c{n}", [sum(range(1, n + 1)), 1, 0]] if kind == "add" else None
            ob = _ob(f"chain/{kind}{n}/{oname}", can, var, vars_, expect=exp)
            if n >= 100:
                ob.timeout = 900
            obs.append(ob)
    return obs
