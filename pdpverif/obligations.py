"""Obligation records and the parallel runner.

One obligation = (harness function, JSON parameters, symbolic variables, budget).
Life-cycle in one forked worker (see DESIGN.md section 4):

  1. twin   : same harness, assertion ``False`` at the reach point -> must be REFUTED;
              its witness is replayed concretely through the literal-text route under
              /venv/bin/python and must (a) reach the same point, (b) satisfy the claim and
              (c) show the same observable outcome as the traced run.
  2. claim  : the real post-condition -> confirmed | refuted (+replay) | unknown (+retry).
"""
import importlib
import json
import os
import subprocess
import sys
import time
import traceback
import multiprocessing as mp
from dataclasses import dataclass, field, asdict
from typing import Any, Dict, List, Optional

from . import common
from .common import Skip

PY_REPLAY = os.environ.get("PDPVERIF_REPLAY_PY", "/venv/bin/python")
TYPES = {"int": int, "str": str, "bytes": bytes, "bool": bool}


class Witness(Exception):
    """Raised at the reach point in twin mode."""


class Ctx:
    def __init__(self, route="inject", twin=False, exclude=None):
        self.route = route
        self.twin = twin
        self.obs = []
        self.hobs = []      # detailed observations compared only between concrete replays of one input under different hash seeds
        self.reach_calls = 0
        self.reached = False
        self.exclude = exclude or []

    def observe(self, *things):
        self.obs.append(things)

    def observe_detail(self, *things):
        self.hobs.append(things)

    def observe_outcome(self, o):
        self.obs.append((o.status, o.base, o.code, [d[1] for d in o.diags if d[0] != "warning"]))

    def reach(self, cond=True):
        self.reach_calls += 1
        if cond:
            self.reached = True
            if self.twin:
                raise Witness()


@dataclass
class Ob:
    oid: str
    harness: str  # "module:function"
    params: Dict[str, Any]
    vars: Dict[str, str]
    timeout: float = 120.0
    per_path: float = 30.0
    note: str = ""
    twin: bool = True
    pre: str = ""  # human-readable pre-condition (documentation; the harness enforces it)
    shrink: Optional[Dict[str, Any]] = None  # params override used for the one retry
    hashseeds: Optional[List[int]] = None    # replay the twin witness in fresh processes under these PYTHONHASHSEED values too


def load_harness(spec):
    mod, fn = spec.split(":")
    return getattr(importlib.import_module(mod), fn)


def _jsonable(v):
    if isinstance(v, (bytes, bytearray)):
        return {"__bytes__": bytes(v).hex()}
    if isinstance(v, bool):
        return v
    if isinstance(v, int):
        return int(v)
    if isinstance(v, str):
        if any(0xD800 <= ord(c) < 0xE000 for c in v):
            return {"__str__": [ord(c) for c in v]}
        return str(v)
    if isinstance(v, (list, tuple)):
        return [_jsonable(x) for x in v]
    if isinstance(v, dict):
        return {str(k): _jsonable(x) for k, x in v.items()}
    if v is None or isinstance(v, float):
        return v
    return repr(v)


def _unjson(v):
    if isinstance(v, dict):
        if "__bytes__" in v:
            return bytes.fromhex(v["__bytes__"])
        if "__str__" in v:
            return "".join(chr(c) for c in v["__str__"])
        return {k: _unjson(x) for k, x in v.items()}
    if isinstance(v, list):
        return [_unjson(x) for x in v]
    return v


def run_concrete(ob_harness, params, values, route, exclude=None):
    """Run a harness on concrete values in this interpreter. Returns a JSON-able dict."""
    h = load_harness(ob_harness)
    ctx = Ctx(route=route, twin=False, exclude=exclude)
    res = {"route": route}
    try:
        ok = h(params, dict(values), ctx)
        res["ok"] = bool(ok)
    except Skip:
        res["ok"] = None
        res["skipped"] = True
    except Exception as e:  # noqa: BLE001
        res["ok"] = False
        res["exc"] = f"{type(e).__name__}: {e}"
        res["tb"] = traceback.format_exc()[-2000:]
    res["reached"] = ctx.reached or ctx.reach_calls == 0
    res["obs"] = _jsonable(ctx.obs)
    res["hobs"] = _jsonable(ctx.hobs)
    return res


def replay_subprocess(harness, params, values, route="text", timeout=120, hashseed=None, history=None):
    """Replay under the repository's own interpreter (3.12, no CrossHair).  ``history``: inputs run (and ignored) first in the same process."""
    req = json.dumps({"harness": harness, "params": params, "values": _jsonable(values), "route": route,
                      "history": [_jsonable(h) for h in (history or [])]})
    env = dict(os.environ)
    env["PYTHONPATH"] = common.VERIF + os.pathsep + common.REPO
    env.pop("PDPY11_VERIF", None)
    if hashseed is not None:
        env["PYTHONHASHSEED"] = str(hashseed)
    try:
        p = subprocess.run([PY_REPLAY, "-m", "pdpverif.replay", "--worker"], input=req, capture_output=True,
                           text=True, timeout=timeout, env=env, cwd=common.VERIF)
    except subprocess.TimeoutExpired:
        return {"ok": False, "timeout": True, "exc": f"concrete replay did not finish in {timeout}s"}
    if p.returncode != 0:
        return {"ok": None, "harness_error": True, "exc": p.stderr[-2000:]}
    try:
        return json.loads(p.stdout.strip().splitlines()[-1])
    except Exception:
        return {"ok": None, "harness_error": True, "exc": "unparsable replay output: " + p.stdout[-500:] + p.stderr[-500:]}


def _explore(ob, twin, exclude=None, params=None, timeout=None):
    from . import engine
    from crosshair.core import deep_realize
    h = load_harness(ob.harness)
    params = ob.params if params is None else params
    holder = {}

    def body(**vals):
        ctx = Ctx(route="inject", twin=twin, exclude=exclude)
        holder["ctx"] = ctx
        for region in (exclude or []):
            # a known finding's input region is assumed away so that a different violation is still found
            if eval(region, {"__builtins__": {"abs": abs, "len": len, "sum": sum, "min": min, "max": max}}, dict(vals)):
                raise Skip()
        try:
            ok = h(params, vals, ctx)
        except Witness:
            common.SIDE["obs"] = ctx.obs
            return False
        if twin and ctx.reach_calls == 0:
            common.SIDE["obs"] = ctx.obs
            return False
        return ok

    argtypes = {n: TYPES[t] for n, t in ob.vars.items()}
    v = engine.explore(body, argtypes, timeout=timeout or ob.timeout, per_path_timeout=ob.per_path)
    return v


def _funcs_entered(ob, values):
    """pdpy11 functions entered while assembling the witness concretely (sys.setprofile)."""
    seen = set()

    def prof(frame, event, arg):
        if event == "call":
            fn = frame.f_code.co_filename
            if "/pdpy11/" in fn:
                seen.add(os.path.basename(fn)[:-3] + "." + frame.f_code.co_qualname)

    sys.setprofile(prof)
    try:
        run_concrete(ob.harness, ob.params, values, "inject")
    finally:
        sys.setprofile(None)
    return sorted(seen)


def _work(ob: Ob, known: List[Dict[str, Any]], conn):
    """Body of one worker process."""
    t0 = time.time()
    res: Dict[str, Any] = {"oid": ob.oid, "harness": ob.harness, "params": ob.params, "vars": ob.vars,
                           "note": ob.note, "pre": ob.pre, "status": "unknown", "paths": 0, "queries": 0,
                           "solver_s": 0.0, "replays": 0, "messages": [], "known": [], "functions": []}
    try:
        # ---- 0. termination probe (C08): one concrete instance under a wall-clock watchdog ----
        if ob.params.get("hang_probe"):
            defaults = {n: (0 if t == "int" else ("" if t == "str" else b"")) for n, t in ob.vars.items()}
            rp = replay_subprocess(ob.harness, ob.params, defaults, timeout=ob.params.get("hang_timeout", 25))
            res["replays"] += 1
            if rp.get("timeout"):
                cex = {"values": _jsonable(defaults), "detail": "does not terminate: concrete assembly of this input exceeded the watchdog", "replay": rp}
                matched = _match_known(known, ob.oid, defaults, [])
                if matched is not None:
                    res["known"].append({"id": matched["id"], "what": matched["what"], "cex": cex})
                    res["status"] = "confirmed"  # nothing else can be explored on an input that hangs
                    res["messages"].append("known non-terminating input; symbolic exploration skipped")
                else:
                    res["status"] = "violated"
                    res["cex"] = cex
                res["wall_s"] = round(time.time() - t0, 2)
                conn.send(res)
                return
        # ---- 1. twin -----------------------------------------------------------------
        if ob.twin:
            common.SIDE.clear()
            tv = _explore(ob, twin=True, timeout=max(30.0, ob.timeout / 2))
            res["paths"] += tv.paths
            res["queries"] += tv.queries
            res["solver_s"] += tv.solver_s
            res["twin"] = {"status": tv.status, "paths": tv.paths, "witness": _jsonable(tv.cex), "cpu_s": tv.cpu_s}
            if tv.status != "refuted":
                res["status"] = "harness_error"
                res["messages"].append(f"twin not refuted ({tv.status}): harness is vacuous or unreachable: {tv.detail[:800]}")
                conn.send(res)
                return
            # concrete replay of the witness through the text route under the repo's python
            rp = replay_subprocess(ob.harness, ob.params, tv.cex)
            res["replays"] += 1
            res["twin"]["replay"] = {k: rp.get(k) for k in ("ok", "reached", "exc", "skipped")}
            res["twin"]["replay_full"] = rp
            if rp.get("ok") is not True or not rp.get("reached"):
                # the claim fails concretely on the witness => it is a real counterexample
                # candidate, handled below by the claim run; only complain if claim confirms.
                res["twin"]["witness_claim_failed"] = True
            # traced-vs-concrete observable comparison
            traced_obs = _jsonable((tv.extra.get("side") or {}).get("obs"))
            if rp.get("ok") is True and rp.get("obs") is not None and traced_obs is not None and traced_obs != rp.get("obs"):
                res["status"] = "harness_error"
                res["messages"].append("traced run and concrete text-route replay observe different outcomes on the twin witness: "
                                       f"traced={json.dumps(traced_obs)[:600]} concrete={json.dumps(rp.get('obs'))[:600]}")
                conn.send(res)
                return
            if ob.hashseeds and rp.get("ok") is True:
                # process start-up state no function sees: the same input in fresh processes under different string-hash seeds
                ref = None
                for hs in ob.hashseeds:
                    rp2 = replay_subprocess(ob.harness, ob.params, tv.cex, hashseed=hs)
                    res["replays"] += 1
                    if rp2.get("harness_error"):
                        continue
                    if ref is None:
                        ref = (hs, rp2)
                    if rp2.get("ok") is not True or rp2.get("obs") != ref[1].get("obs") or rp2.get("hobs") != ref[1].get("hobs"):
                        res["twin"]["witness_claim_failed"] = True
                        res["twin"]["hash_dependent"] = [ref[0], hs]
                        res["twin"]["replay_full"] = {"hashseeds": [ref[0], hs], "this": rp2, "reference": {k: ref[1].get(k) for k in ("ok", "obs", "hobs")}}
                        break
            res["functions"] = _funcs_entered(ob, tv.cex)
        # ---- 2. claim ----------------------------------------------------------------
        exclude: List[str] = []
        attempts = 0
        params = ob.params
        while True:
            attempts += 1
            cv = _explore(ob, twin=False, exclude=exclude, params=params)
            res["paths"] += cv.paths
            res["queries"] += cv.queries
            res["solver_s"] += cv.solver_s
            res["claim"] = {"status": cv.status, "paths": cv.paths, "confirmed_paths": cv.confirmed_paths,
                            "skipped_paths": cv.skipped_paths, "unknown_paths": cv.unknown_paths, "cpu_s": cv.cpu_s,
                            "detail": cv.detail[:1500]}
            if cv.status == "confirmed":
                if ob.twin and res["twin"].get("witness_claim_failed"):
                    # The witness was replayed through the public text route in a fresh /venv/bin/python process and the
                    # claim fails there: a reproduced failing input against the real code.  (Typical cause: behaviour that
                    # depends on what the same process did before, which the exploration inside one worker cannot see.)
                    wit = res["twin"]["witness"]
                    cex = {"values": wit, "detail": ("claim holds on every explored path inside the worker but fails on the twin witness "
                                                     "replayed in a fresh process through the literal-text route") if "hash_dependent" not in res["twin"] else
                                                    (f"the outcome of the twin witness differs between fresh processes with PYTHONHASHSEED={res['twin']['hash_dependent']}: "
                                                     "the result depends on string hashing"), "replay": res["twin"].get("replay_full")}
                    matched = _match_known(known, ob.oid, _unjson(wit) if isinstance(wit, dict) else {}, exclude)
                    if matched is not None:
                        res["known"].append({"id": matched["id"], "what": matched["what"], "cex": cex})
                        res["status"] = "confirmed"
                    else:
                        res["status"] = "violated"
                        res["cex"] = cex
                else:
                    res["status"] = "confirmed"
                break
            if cv.status in ("refuted", "error"):
                rp = replay_subprocess(ob.harness, params, cv.cex)
                res["replays"] += 1
                cex = {"values": _jsonable(cv.cex), "detail": cv.detail[:1500], "replay": rp}
                if rp.get("harness_error") or rp.get("skipped"):
                    res["status"] = "harness_error"
                    res["messages"].append("counterexample could not be replayed: " + json.dumps(cex)[:3000])
                    break
                if rp.get("ok") is True:
                    # Inside the worker the twin ran before the claim: the same order in one fresh process
                    wit = (res.get("twin") or {}).get("witness")
                    rp_h = replay_subprocess(ob.harness, params, cv.cex, history=[_unjson(wit)]) if isinstance(wit, dict) else None
                    if rp_h is not None and rp_h.get("ok") is False and not rp_h.get("harness_error"):
                        res["replays"] += 1
                        rp_h["history"] = [wit]
                        cex = {"values": _jsonable(cv.cex), "detail": "fails only after an earlier run of the same harness in the same process "
                                                                        "(reproduced in a fresh process: witness first, then this input)", "replay": rp_h}
                        matched = _match_known(known, ob.oid, cv.cex, exclude)
                        if matched is not None and matched["region"] not in exclude:
                            res["known"].append({"id": matched["id"], "what": matched["what"], "cex": cex})
                            exclude.append(matched["region"])
                            continue
                        res["status"] = "violated"
                        res["cex"] = cex
                        break
                    res["status"] = "harness_error"
                    res["messages"].append("counterexample does NOT reproduce through the text route under /venv/bin/python "
                                           "(encoding/shim wrong?): " + json.dumps(cex)[:3000])
                    break
                # reproduced: known finding?
                matched = _match_known(known, ob.oid, cv.cex, exclude)
                if matched is not None and matched["region"] not in exclude:
                    res["known"].append({"id": matched["id"], "what": matched["what"], "cex": cex})
                    exclude.append(matched["region"])
                    continue  # re-run with the known region excluded
                res["status"] = "violated"
                res["cex"] = cex
                break
            if exclude and cv.status == "unknown" and cv.detail.startswith("vacuous"):
                res["status"] = "confirmed"  # the known finding's region covers the whole obligation
                res["messages"].append("nothing left to explore outside the known finding's region")
                break
            # unknown
            if attempts == 1 and cv.status == "unknown" and "NotDeterministic" not in cv.detail:
                if ob.shrink is not None and params is ob.params:
                    params = {**ob.params, **ob.shrink}
                    res["messages"].append(f"inconclusive at full bound ({cv.detail[:200]}); retried with shrunk bound {ob.shrink}")
                    res["shrunk"] = ob.shrink
                    continue
            res["status"] = "inconclusive"
            res["messages"].append(cv.detail[:1500])
            break
    except BaseException as e:  # noqa: BLE001
        res["status"] = "harness_error"
        res["messages"].append("worker crashed: " + "".join(traceback.format_exception(type(e), e, e.__traceback__))[-3000:])
    res["wall_s"] = round(time.time() - t0, 2)
    try:
        conn.send(res)
    except Exception:
        pass


def _match_known(known, oid, values, exclude):
    for k in known:
        if k.get("status", "open") != "open":
            continue
        if not _oid_match(k.get("obligation", "*"), oid):
            continue
        try:
            if eval(k["region"], {"__builtins__": {"abs": abs, "len": len, "sum": sum, "min": min, "max": max}}, dict(values)):
                return k
        except Exception:
            continue
    return None


def _oid_match(pattern, oid):
    import fnmatch
    return fnmatch.fnmatchcase(oid, pattern)


def run_all(obs: List[Ob], known: List[Dict[str, Any]], jobs: int = 16, log=None, wall_factor: float = 3.0):
    """Run obligations in forked workers; returns list of result dicts in input order."""
    ctx = mp.get_context("fork")
    pending = list(enumerate(obs))
    running = {}
    results: Dict[int, Dict[str, Any]] = {}
    t_start = time.time()
    done = 0
    while pending or running:
        while pending and len(running) < jobs:
            i, ob = pending.pop(0)
            pc, cc = ctx.Pipe(duplex=False)
            p = ctx.Process(target=_work, args=(ob, known, cc), daemon=True)
            p.start()
            cc.close()
            limit = 60 + wall_factor * ob.timeout * (2 if ob.shrink else 1) * 1.5
            running[i] = (p, pc, time.time(), limit, ob)
        time.sleep(0.02)
        for i in list(running):
            p, pc, t0, limit, ob = running[i]
            r = None
            if pc.poll():
                try:
                    r = pc.recv()
                except EOFError:
                    r = {"oid": ob.oid, "status": "harness_error", "messages": ["worker died without a result"],
                         "paths": 0, "queries": 0, "solver_s": 0, "replays": 0, "known": [], "params": ob.params,
                         "vars": ob.vars, "harness": ob.harness, "functions": []}
            elif not p.is_alive():
                r = {"oid": ob.oid, "status": "harness_error", "messages": [f"worker exited with code {p.exitcode}"],
                     "paths": 0, "queries": 0, "solver_s": 0, "replays": 0, "known": [], "params": ob.params,
                     "vars": ob.vars, "harness": ob.harness, "functions": []}
            elif time.time() - t0 > limit:
                p.kill()
                r = {"oid": ob.oid, "status": "inconclusive", "messages": [f"wall-clock watchdog: killed after {limit:.0f}s"],
                     "paths": 0, "queries": 0, "solver_s": 0, "replays": 0, "known": [], "params": ob.params,
                     "vars": ob.vars, "harness": ob.harness, "functions": []}
            if r is not None:
                p.join(timeout=5)
                pc.close()
                del running[i]
                results[i] = r
                done += 1
                if log:
                    log(done, len(obs), r)
    return [results[i] for i in range(len(obs))]
