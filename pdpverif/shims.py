"""Engine shims: places where CrossHair 0.0.110 misrepresents CPython at a C boundary.

Every shim is listed in DESIGN.md section 5 and in each evidence file (``shims``).  They
are exercised on every run by the concrete replays: a shim that changed behaviour would
make the traced run and the concrete run disagree, which is a harness error (exit 2).
"""

ACTIVE = []

# Set to False by harnesses whose subject *is* number->text formatting (C17, C19).
FORMAT_SHIM_ENABLED = [True]


def _install():
    from crosshair.core_and_libs import NoTracing  # noqa: F401
    from crosshair.libimpl import builtinslib

    # -- 1. bytes.__add__ with a non-bytes right operand must return NotImplemented ------
    SymbolicBytes = getattr(builtinslib, "SymbolicBytes", None)
    if SymbolicBytes is not None:
        for cls in {SymbolicBytes, getattr(builtinslib, "BytesLike", SymbolicBytes)}:
            orig_add = cls.__dict__.get("__add__")
            if orig_add is None:
                continue

            def make(orig):
                def __add__(self, other):
                    if hasattr(other, "__radd__") and not isinstance(other, (bytes, bytearray, memoryview)) and not hasattr(other, "__ch_realize__"):
                        return NotImplemented
                    return orig(self, other)
                return __add__
            try:
                cls.__add__ = make(orig_add)
            except Exception:
                pass
        ACTIVE.append("SymbolicBytes.__add__ returns NotImplemented for non-bytes right operands (CPython semantics)")

    # -- 2. f-string formatting of a symbolic number yields a placeholder -----------------
    from crosshair import opcode_intercept as oi
    from crosshair.util import CrossHairValue
    from crosshair.libimpl.builtinslib import AnySymbolicStr
    from crosshair.tracers import NoTracing as _NT

    FSV = oi.FormatStashingValue
    o_str, o_fmt, o_repr = FSV.__str__, FSV.__format__, FSV.__repr__

    def _is_sym_number(v):
        with _NT():
            return isinstance(v, CrossHairValue) and not isinstance(v, AnySymbolicStr)

    def __str__(self):
        if FORMAT_SHIM_ENABLED[0] and _is_sym_number(self.value):
            self.formatted = "<sym>"
            return ""
        return o_str(self)

    def __format__(self, fmt):
        if FORMAT_SHIM_ENABLED[0] and _is_sym_number(self.value):
            self.formatted = "<sym>"
            return ""
        return o_fmt(self, fmt)

    def __repr__(self):
        if FORMAT_SHIM_ENABLED[0] and _is_sym_number(self.value):
            self.formatted = "<sym>"
            return ""
        return o_repr(self)

    FSV.__str__, FSV.__format__, FSV.__repr__ = __str__, __format__, __repr__
    ACTIVE.append("f-string formatting of a symbolic number yields the placeholder '<sym>' (diagnostic text is not modelled; "
                  "switched off where formatting is the subject)")

    # -- 3. codecs.lookup of a pure-Python codec without stream classes (pdpy11's 'bk') ---
    import codecs
    from crosshair import core
    from crosshair.libimpl import codecslib
    from crosshair.core import realize

    real_lookup = codecs.lookup
    orig__lookup = codecslib._lookup

    def _lookup(encoding):
        with _NT():
            enc = realize(encoding)
            try:
                return real_lookup("crosshair_" + enc)
            except LookupError:
                pass
            info = real_lookup(enc)
            if info.streamreader is None or info.streamwriter is None:
                # a codec implemented by plain Python functions: run it under tracing as it is
                return info
        return orig__lookup(encoding)

    codecslib._lookup = _lookup
    core._PATCH_REGISTRATIONS[codecs.lookup] = _lookup
    ACTIVE.append("codecs.lookup returns the real CodecInfo for pure-Python codecs without stream classes ('bk'); CrossHair's wrapper crashes on them")

    # -- 4. UnicodeEncodeError(...) with a symbolic ``object`` ----------------------------
    RealUEE = UnicodeEncodeError

    def _uee(encoding, obj, start, end, reason):
        with _NT():
            n = realize(len(obj)) if not isinstance(obj, str) else len(obj)
            dummy = obj if isinstance(obj, str) else "\ufffd" * n
            return RealUEE(realize(encoding), dummy, realize(start), realize(end), realize(reason))

    core._PATCH_REGISTRATIONS[UnicodeEncodeError] = _uee
    ACTIVE.append("UnicodeEncodeError(...) accepts a symbolic object: a dummy string of the realised length is substituted, start/end are kept "
                  "(the C constructor rejects proxies); e.object is therefore never inspected by an oracle")

    # -- 5. str.expandtabs: CrossHair models it as replace("\t", " " * n), which is not what CPython does ---
    def _expandtabs(self, tabsize=8):
        with _NT():
            concrete = realize(self)
            ts = realize(tabsize)
        return concrete.expandtabs(ts)

    try:
        builtinslib.AnySymbolicStr.expandtabs = _expandtabs
        ACTIVE.append("symbolic str.expandtabs realises the string and calls CPython's (CrossHair's model treats a tab as a fixed number of blanks; "
                      "found when a seeded change using expandtabs() was wrongly confirmed)")
    except Exception:
        pass


_install()
