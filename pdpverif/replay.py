"""Concrete replay of a harness on literal values, through the public text route.

  python -m pdpverif.replay --worker          JSON request on stdin -> JSON on stdout
  python -m pdpverif.replay <replay-file>     re-run a recorded violation; exit 1 if it reproduces

Runs under /venv/bin/python (3.12, no CrossHair) as well as under python3-vt.
"""
import json
import sys


def main(argv):
    from . import common
    common.import_repo()
    from . import obligations as O
    if argv and argv[0] == "--worker":
        req = json.loads(sys.stdin.read())
        for h in req.get("history") or []:
            O.run_concrete(req["harness"], req["params"], O._unjson(h), req.get("route", "text"))
        res = O.run_concrete(req["harness"], req["params"], O._unjson(req["values"]), req.get("route", "text"))
        sys.stdout.write("\n" + json.dumps(res) + "\n")
        return 0
    path = argv[0]
    rec = json.load(open(path))
    values = O._unjson(rec["values"])
    hs = (rec.get("concrete_replay") or {}).get("hashseeds")
    if hs:
        # a violation that shows only between fresh processes with different string-hash seeds
        a = O.replay_subprocess(rec["harness"], rec["params"], values, hashseed=hs[0])
        b = O.replay_subprocess(rec["harness"], rec["params"], values, hashseed=hs[1])
        same = a.get("ok") is True and b.get("ok") is True and a.get("obs") == b.get("obs") and a.get("hobs") == b.get("hobs")
        print(json.dumps({"property": rec.get("property"), "obligation": rec.get("obligation"), "values": rec["values"], "hashseeds": hs,
                          "first": a, "second": b}, indent=1)[:6000])
        if same:
            print("does not reproduce: both hash seeds give the same outcome now")
            return 0
        print(f"VIOLATION property={rec.get('property')} replay={path}")
        return 1
    for h in (rec.get("concrete_replay") or {}).get("history") or []:
        # a violation that shows only after an earlier run in the same process
        O.run_concrete(rec["harness"], rec["params"], O._unjson(h), "text")
    res = O.run_concrete(rec["harness"], rec["params"], values, "text")
    print(json.dumps({"property": rec.get("property"), "obligation": rec.get("obligation"), "values": rec["values"], "result": res}, indent=1)[:6000])
    if res.get("ok") is True:
        print("does not reproduce: the property holds on this input now")
        return 0
    print(f"VIOLATION property={rec.get('property')} replay={path}")
    return 1


if __name__ == "__main__":
    sys.exit(main(sys.argv[1:]))
