"""parse (concrete text) -> inject values into the real token tree -> real compile -> Outcome.

Two routes share one template language:

* ``route="inject"``: every ``{NAME}`` in a template becomes a reserved caret-decimal
  literal ``^D9xxx``; after the real parser has built the token tree the ``.value`` of
  those ``Number`` tokens is overwritten with ``values[NAME]`` (a CrossHair symbolic int in
  the traced world, a plain int otherwise).  String variables are written ``{NAME}``
  inside quotes and are carried by private-use marker characters.
* ``route="text"``: ``{NAME}`` is replaced by the value written out as a literal, and the
  text goes through the real parser with no injection at all.  This is the public route
  used to replay every counterexample and every twin witness.
"""
import os
import re
import sys

from .common import notrace, BUILD

PH_BASE = 9000
MARK_BASE = 0xE000  # private-use characters carry string variables through the parser

_VAR_RE = re.compile(r"\{([A-Za-z_][A-Za-z_0-9]*)\}")


class Outcome:
    __slots__ = ("status", "base", "code", "diags", "exc", "comp", "trace")

    def __init__(self):
        self.status = None  # ok | failed | crashed
        self.base = None
        self.code = None
        self.diags = []  # (severity, identifier, [(file, start, end), ...])
        self.exc = None
        self.comp = None
        self.trace = None

    @property
    def errors(self):
        return [d for d in self.diags if d[0] != "warning"]

    @property
    def error_ids(self):
        return [d[1] for d in self.diags if d[0] != "warning"]

    def summary(self):
        return {
            "status": self.status,
            "base": None if self.base is None else int(self.base),
            "code": None if self.code is None else bytes(self.code).hex(),
            "diags": [[d[0], d[1]] for d in self.diags],
            "exc": self.exc,
        }

    def symbol(self, name, file_index=1):
        """Final value of an ordinary symbol of file #file_index (1-based)."""
        from pdpy11.deferred import wait
        return wait(self.comp.symbols[f".internal{file_index}.{name}"][1])


def var_names(text):
    return list(dict.fromkeys(_VAR_RE.findall(text)))


def _lit_int(v):
    v = int(v)
    return f"-^D{-v}" if v < 0 else f"^D{v}"


def _lit_str(s):
    out = []
    for ch in s:
        o = ord(ch)
        if ch in "\\\"'/" or o < 0x20 or o == 0x7F or (0x80 <= o <= 0xFF and not ch.isprintable()) or ch in "\r\n\t":
            if o <= 0xFF:
                out.append("\\x%02x" % o)
            else:
                out.append(ch)
        else:
            out.append(ch)
    return "".join(out)


def render(text, order, values, route):
    """Replace {NAME} occurrences.  ``order`` fixes the placeholder number of each name."""
    def sub(m):
        name = m.group(1)
        if name not in order:
            return m.group(0)
        idx = order.index(name)
        kind = "str" if isinstance(values.get(name), str) or name.startswith("S_") or name.startswith("C_") else "int"
        if route == "inject":
            if kind == "str":
                return chr(MARK_BASE + idx)
            return f"^D{PH_BASE + idx}"
        v = values[name]
        if kind == "str":
            return _lit_str(v)
        return _lit_int(v)
    return _VAR_RE.sub(sub, text)


def _walk(tok, fn, seen):
    if id(tok) in seen:
        return
    seen.add(id(tok))
    fn(tok)
    d = getattr(tok, "__dict__", None)
    if not d:
        return
    for k, v in list(d.items()):
        if k in ("ctx_start", "ctx_end", "ctx"):
            continue
        if isinstance(v, list):
            for x in v:
                if hasattr(x, "ctx_start"):
                    _walk(x, fn, seen)
        elif hasattr(v, "ctx_start"):
            _walk(v, fn, seen)


def inject(file_ast, order, values):
    from pdpy11 import types

    def subst_string(s):
        if not any(MARK_BASE <= ord(c) < MARK_BASE + len(order) for c in s):
            return s
        parts = []
        for c in s:
            o = ord(c)
            if MARK_BASE <= o < MARK_BASE + len(order):
                parts.append(values[order[o - MARK_BASE]])
            else:
                parts.append(c)
        if len(parts) == 1:
            return parts[0]
        res = parts[0]
        for p in parts[1:]:
            res = res + p
        return res

    def fn(tok):
        if isinstance(tok, types.Number):
            m = re.fullmatch(r"(-?)\^D(9\d\d\d)", tok.representation)
            if m:
                idx = int(m.group(2)) - PH_BASE
                if 0 <= idx < len(order):
                    v = values[order[idx]]
                    tok.value = -v if m.group(1) else v
        elif isinstance(tok, (types.QuotedString, types.CharLiteral)):
            tok.string = subst_string(tok.string)

    _walk(file_ast.body, fn, set())
    return file_ast


def reset_module_state():
    from pdpy11 import deferred, reports
    deferred.try_compute.depth = 0
    del deferred.Awaiting.awaiting_stack[:]
    del reports.handle_reports.handlers_stack[:]
    deferred.Deferred.next_instance_id = 1


class Collector:
    """Report handler that records diagnostics without formatting anything."""

    def __init__(self, outcome):
        self.outcome = outcome

    def __call__(self, priority, identifier, *reps):
        from pdpy11 import reports
        sev = "warning" if priority is reports.warning else ("critical" if priority is reports.critical else "error")
        spans = []
        for r in reps:
            try:
                spans.append((r[0].filename, r[0].pos, r[1].filename, r[1].pos))
            except Exception:
                spans.append(None)
        self.outcome.diags.append((sev, identifier, spans))


def assemble(files, values=None, *, route="inject", charset="bk", order=None, handler=None,
             reset=True, keep_comp=True, hook=False, after_parse=None):
    """Assemble ``files`` = [(filename, template_text), ...] with the real pdpy11.

    Returns an Outcome.  Nothing of pdpy11 is stubbed: parser, Compiler, reports.
    """
    import pdpy11.parser as P
    from pdpy11 import reports
    from pdpy11.compiler import Compiler

    values = values or {}
    if order is None:
        order = []
        for _, t in files:
            for n in var_names(t):
                if n not in order and n in values:
                    order.append(n)
    if reset:
        reset_module_state()
    out = Outcome()
    real_parse = P.__dict__.get("_verif_real_parse") or P.parse

    def parse_and_inject(filename, text):
        with notrace():
            ast = real_parse(filename, text)
            if route == "inject":
                inject(ast, order, values)
            if after_parse is not None:
                after_parse(ast)
        return ast

    P._verif_real_parse = real_parse
    P.parse = parse_and_inject  # files pulled in by .include get the same treatment
    coll = handler if handler is not None else Collector(out)
    old_env = os.environ.get("PDPY11_VERIF")
    if hook:
        os.environ["PDPY11_VERIF"] = "1"
    try:
        try:
            with reports.handle_reports(coll):
                asts = []
                for name, text in files:
                    with notrace():
                        rendered = render(text, order, values, route)
                    asts.append(parse_and_inject(name, rendered))
                comp = Compiler(output_charset=charset)
                if keep_comp:
                    out.comp = comp
                base, code = comp.compile_and_link_files(asts)
            out.status, out.base, out.code = "ok", base, code
            out.trace = getattr(comp, "verif_trace", None)
        except reports.UnrecoverableError:
            out.status = "failed"
        except Exception as e:  # noqa: BLE001 - only Exception: CrossHair control flow is BaseException
            out.status = "crashed"
            out.exc = f"{type(e).__name__}: {e}"[:300]
    finally:
        P.parse = real_parse
        if hook:
            if old_env is None:
                os.environ.pop("PDPY11_VERIF", None)
            else:
                os.environ["PDPY11_VERIF"] = old_env
    return out


def write_aux_file(subdir, name, content):
    """Real file for .include / insert_file (concrete content); atomic, idempotent."""
    d = os.path.join(BUILD, "aux", subdir)
    os.makedirs(d, exist_ok=True)
    p = os.path.join(d, name)
    data = content if isinstance(content, (bytes, bytearray)) else content.encode("utf-8")
    try:
        with open(p, "rb") as f:
            if f.read() == data:
                return p
    except OSError:
        pass
    tmp = p + f".tmp{os.getpid()}"
    with open(tmp, "wb") as f:
        f.write(data)
    os.replace(tmp, p)
    return p


# ---- little helpers for oracles --------------------------------------------------------
def word_at(code, i):
    """Little-endian 16-bit word at byte offset i of the image (arithmetic, no '|')."""
    return code[i] + 256 * code[i + 1]


def words(code):
    return [word_at(code, i) for i in range(0, len(code) - 1, 2)]
