"""Things shared by harnesses in both worlds: traced (python3-vt + CrossHair) and plain
concrete replay (/venv/bin/python, no CrossHair installed)."""
import contextlib
import os
import sys

REPO = os.environ.get("PDPVERIF_REPO", "/repo")
VERIF = os.path.dirname(os.path.dirname(os.path.abspath(__file__)))
BUILD = os.environ.get("PDPVERIF_BUILD") or os.path.join(VERIF, "build")


class Skip(Exception):
    """Pre-condition of the obligation does not hold for these values."""


def require(cond):
    if not cond:
        raise Skip()


try:  # traced world
    from crosshair.tracers import NoTracing as _NoTracing, is_tracing as _is_tracing
    HAVE_CROSSHAIR = True
except Exception:  # concrete world
    HAVE_CROSSHAIR = False
    _NoTracing = None
    _is_tracing = None


@contextlib.contextmanager
def notrace():
    """Run a block without CrossHair tracing (concrete text handling); no-op when concrete."""
    if HAVE_CROSSHAIR and _is_tracing():
        with _NoTracing():
            yield
    else:
        yield


def tracing_now():
    return bool(HAVE_CROSSHAIR and _is_tracing())


# side channel: a harness may leave realisable details of the last path here
SIDE = {}


def import_repo():
    """(Re-)import pdpy11 from the current working tree of /repo."""
    if REPO not in sys.path:
        sys.path.insert(0, REPO)
    for name in [m for m in sys.modules if m == "pdpy11" or m.startswith("pdpy11.")]:
        del sys.modules[name]
    import pdpy11  # noqa: F401
    from pdpy11 import bk_encoding  # noqa: F401  registers the codec
    import pdpy11.parser, pdpy11.compiler, pdpy11.reports, pdpy11.deferred  # noqa: F401,E401
    return sys.modules["pdpy11"]


def concretize(x):
    """Realise a value that is already pinned on this path (or fork over its values)."""
    if HAVE_CROSSHAIR and _is_tracing():
        from crosshair.core import realize
        return realize(x)
    return x
