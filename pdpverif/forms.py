"""Operand forms shared by several properties.

A *form* is a way of writing one general operand.  ``text(form, i)`` gives the template
text using variable names R<i> (register number through the real ``%n`` operator) and
X<i> (extension value); ``expect(form, i)`` gives (mode, reg-or-varname, ext-kind) where
ext-kind is None | "value" (extension word == X mod 2**16) | "pcrel" (effective address
== X mod 2**16).
"""

GENERAL_FORMS = {
    # name: (template, mode, reg, ext-kind, uses R, uses X)
    "reg":     ("%{R}",        0, "R", None,    True,  False),
    "regdef":  ("(%{R})",      1, "R", None,    True,  False),
    "inc":     ("(%{R})+",     2, "R", None,    True,  False),
    "incdef":  ("@(%{R})+",    3, "R", None,    True,  False),
    "dec":     ("-(%{R})",     4, "R", None,    True,  False),
    "decdef":  ("@-(%{R})",    5, "R", None,    True,  False),
    "idx":     ("{X}(%{R})",   6, "R", "value", True,  True),
    "idxdef":  ("@{X}(%{R})",  7, "R", "value", True,  True),
    "imm":     ("#{X}",        2, 7,   "value", False, True),
    "abs":     ("@#{X}",       3, 7,   "value", False, True),
    "rel":     ("{X}",         6, 7,   "pcrel", False, True),
    "reldef":  ("@{X}",        7, 7,   "pcrel", False, True),
}
# spellings with named registers (concrete); used as extra structure
NAMED_REGS = {"r0": 0, "r1": 1, "r2": 2, "r3": 3, "r4": 4, "r5": 5, "r6": 6, "r7": 7, "sp": 6, "pc": 7}
for _n, _v in NAMED_REGS.items():
    GENERAL_FORMS["n_" + _n] = (_n, 0, _v, None, False, False)
GENERAL_FORMS["n_(r2)"] = ("(r2)", 1, 2, None, False, False)
GENERAL_FORMS["n_(sp)+"] = ("(sp)+", 2, 6, None, False, False)
GENERAL_FORMS["n_@(r5)+"] = ("@(r5)+", 3, 5, None, False, False)
GENERAL_FORMS["n_-(sp)"] = ("-(sp)", 4, 6, None, False, False)
GENERAL_FORMS["n_@-(r1)"] = ("@-(r1)", 5, 1, None, False, False)
GENERAL_FORMS["n_X(r4)"] = ("{X}(r4)", 6, 4, "value", False, True)
GENERAL_FORMS["n_@X(pc)"] = ("@{X}(pc)", 7, 7, "value", False, True)
GENERAL_FORMS["n_@r3"] = ("@r3", 1, 3, None, False, False)          # legacy spelling of (r3)
GENERAL_FORMS["n_@(r3)"] = ("@(r3)", 7, 3, "zero", False, False)    # index deferred, implicit 0

SYMBOLIC_FORMS = ["reg", "regdef", "inc", "incdef", "dec", "decdef", "idx", "idxdef", "imm", "abs", "rel", "reldef"]
NAMED_FORMS = [k for k in GENERAL_FORMS if k.startswith("n_")]
# accumulator spellings for FP operands in mode 0
AC_FORMS = {f"ac{i}": i for i in range(6)}


def text(form, i):
    t = GENERAL_FORMS[form][0]
    return t.replace("{R}", "{R%d}" % i).replace("{X}", "{X%d}" % i)


def uses(form):
    f = GENERAL_FORMS[form]
    return f[4], f[5]


def mode_reg_ext(form):
    f = GENERAL_FORMS[form]
    return f[1], f[2], f[3]
